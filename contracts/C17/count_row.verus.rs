//! property: C17
//! unit: V-C17-count-row
//! tier: quick
//! fns: linfa_preprocessing::countgrams::CountVectorizer::analyze_document (counting the n-gram items of one document into a dense row, then the sparse row and the document frequencies)
//@ extract AD from algorithms/linfa-preprocessing/src/countgrams/mod.rs anchor "fn analyze_document(" body
//@ drop AD from "let string = transform_string(document, &self.properties);" through "let list = NGramList::new(words, self.properties.n_gram_range());" as "        /* dropped: transform_string, tokenizer / regex, NGramList::new -> parameter `list` (the n-gram items of the document, V-C17-ngram-window) */"
//@ rewrite AD "let mut term_frequencies: Array1<usize> = Array1::zeros(self.vocabulary.len());" => "let mut term_frequencies = DenseRow::zeros(self.vocabulary.len());"
//@ rewrite AD "for ngram_items in list {" => "for a in 0..list.len() { let ngram_items = &list[a];   /* for ngram_items in list */"
//@ rewrite AD "for item in ngram_items {" => "for b in 0..ngram_items.len() { let item = ngram_items[b];   /* for item in ngram_items */"
//@ rewrite AD "self.vocabulary.get(&item)" => "self.vocabulary.get_tok(&item)"
//@ rewrite AD "let term_freq = term_frequencies.get_mut(*item_index).unwrap();" => "term_frequencies.incr_at(*item_index);   /* let term_freq = term_frequencies.get_mut(*item_index).unwrap(); */"
//@ rewrite AD "*term_freq += 1;" => "/* *term_freq += 1; */"
//@ rewrite AD "CsVec::empty(self.vocabulary.len())" => "CsVecTok::empty(self.vocabulary.len())"
//@ rewrite AD "for (i, freq) in term_frequencies" => "let nz = term_frequencies.nonzero_abs(); for e in 0..nz.len() /*INV2*/   /* for (i, freq) in term_frequencies"
//@ insert AD before "        {" : */ /* ^ the iterator chain: the filter closure is verified as `keep_pred` below, enumerate/filter plumbing is assumed in nonzero_abs */
//@ extract KEEP from algorithms/linfa-preprocessing/src/countgrams/mod.rs anchor ".filter(|(_, f)| " lines 1 after "for (i, freq) in term_frequencies"
//@ rewrite KEEP ".filter(|(_, f)| " => "id_bool("
//@ rewrite AD "doc_freqs[i]" => "*doc_freqs.at_mut(i)"
//@ insert AD after "        {" : let (i, freq) = nz[e];   /* the pair the iterator yields */ proof { lemma_hit_step(nz@, e as int); }
//@ rewrite AD "/*INV2*/" => "invariant nz_ok(nz@, term_frequencies.c@), term_frequencies.c@.len() == self.vocabulary.n@, (forall|j: int| #![trigger occ(flat(list@), self.vocabulary.m@, j)] 0 <= j < self.vocabulary.n@ ==> term_frequencies.c@[j] == occ(flat(list@), self.vocabulary.m@, j)), doc_freqs.c@.len() == self.vocabulary.n@, df0.len() == self.vocabulary.n@, (forall|j: int| 0 <= j < df0.len() ==> 0 <= #[trigger] df0[j] < usize::MAX), sprs_term_frequencies.dim@ == self.vocabulary.n@, sprs_term_frequencies.entries@.len() == e, (forall|t: int| #![trigger sprs_term_frequencies.entries@[t]] #![trigger nz@[t]] 0 <= t < e ==> sprs_term_frequencies.entries@[t] == (nz@[t].0 as int, nz@[t].1 as int)), (forall|j: int| 0 <= j < df0.len() ==> #[trigger] doc_freqs.c@[j] == df0[j] + (if hit(nz@, e as int, j) { 1int } else { 0int })),"
//@ insert AD before-brace "for a in 0..list.len() " : invariant term_frequencies.c@.len() == self.vocabulary.n@, self.vocabulary.wf(), forall|j: int| 0 <= j < self.vocabulary.n@ ==> #[trigger] term_frequencies.c@[j] == occ(flat(list@.subrange(0, a as int)), self.vocabulary.m@, j),
//@ insert AD after "for a in 0..list.len() " : proof { lemma_flat_step(list@, a as int); }
//@ insert AD before-brace "for b in 0..ngram_items.len() " : invariant a < list@.len(), ngram_items@ == list@[a as int]@, term_frequencies.c@.len() == self.vocabulary.n@, self.vocabulary.wf(), forall|j: int| 0 <= j < self.vocabulary.n@ ==> #[trigger] term_frequencies.c@[j] == occ(flat(list@.subrange(0, a as int)) + ngram_items@.subrange(0, b as int), self.vocabulary.m@, j),
//@ insert AD after "for b in 0..ngram_items.len() " : proof { lemma_occ_step(flat(list@.subrange(0, a as int)), ngram_items@, b as int, self.vocabulary.m@); }
//@ insert AD before "let mut sprs_term_frequencies" : proof { assert(list@.subrange(0, list@.len() as int) =~= list@); assert(term_frequencies.c@ =~= Seq::new(self.vocabulary.n@ as nat, |j: int| occ(flat(list@), self.vocabulary.m@, j))); } let ghost df0 = doc_freqs.c@;
//@ expect-fail vacuity_guard_count
use vstd::prelude::*;
verus! {
#[derive(Clone, Copy)]
pub struct ItemTok { pub w: Ghost<int> }                                 // an n-gram item, known by its word id
pub struct VocabTok { pub n: Ghost<int>, pub m: Ghost<Map<int, int>> }   // word id -> column index
impl VocabTok {
    pub open spec fn wf(&self) -> bool { forall|w: int| #[trigger] self.m@.contains_key(w) ==> 0 <= self.m@[w] < self.n@ }
    #[verifier::external_body] pub fn len(&self) -> (r: usize) ensures r == self.n@ { unimplemented!() }
    #[verifier::external_body]
    pub fn get_tok(&self, item: &ItemTok) -> (r: Option<&(usize, usize)>)                 // HashMap::get
        ensures r is Some <==> self.m@.contains_key(item.w@), r is Some ==> r.unwrap().0 == self.m@[item.w@],
    { unimplemented!() }
}
pub open spec fn flat(l: Seq<Vec<ItemTok>>) -> Seq<ItemTok> decreases l.len() { if l.len() == 0 { Seq::empty() } else { flat(l.drop_last()) + l.last()@ } }
// number of items of `s` whose word is in the vocabulary at column j
pub open spec fn occ(s: Seq<ItemTok>, m: Map<int, int>, j: int) -> int decreases s.len() {
    if s.len() == 0 { 0 } else { occ(s.drop_last(), m, j) + (if m.contains_key(s.last().w@) && m[s.last().w@] == j { 1int } else { 0int }) }
}
proof fn lemma_flat_step(l: Seq<Vec<ItemTok>>, a: int)
    requires 0 <= a < l.len(),
    ensures flat(l.subrange(0, a + 1)) == flat(l.subrange(0, a)) + l[a]@, flat(l.subrange(0, a + 1)) == flat(l.subrange(0, a)) + l[a]@.subrange(0, l[a]@.len() as int),
{
    assert(l[a]@.subrange(0, l[a]@.len() as int) =~= l[a]@);
    assert(l.subrange(0, a + 1).drop_last() =~= l.subrange(0, a));
    assert(l.subrange(0, a + 1).last() == l[a]);
}
proof fn lemma_occ_step(pre: Seq<ItemTok>, cur: Seq<ItemTok>, b: int, m: Map<int, int>)
    requires 0 <= b < cur.len(),
    ensures forall|j: int| #![trigger occ(pre + cur.subrange(0, b + 1), m, j)] occ(pre + cur.subrange(0, b + 1), m, j) == occ(pre + cur.subrange(0, b), m, j) + (if m.contains_key(cur[b].w@) && m[cur[b].w@] == j { 1int } else { 0int }),
        pre + cur.subrange(0, 0) =~= pre, b + 1 == cur.len() ==> pre + cur.subrange(0, b + 1) =~= pre + cur,
{
    let s1 = pre + cur.subrange(0, b + 1);
    assert(s1.drop_last() =~= pre + cur.subrange(0, b));
    assert(s1.last() == cur[b]);
    if b + 1 == cur.len() { assert(cur.subrange(0, b + 1) =~= cur); }
}
pub open spec fn nz_ok(nz: Seq<(usize, usize)>, c: Seq<int>) -> bool {
    &&& forall|t: int| 0 <= t < nz.len() ==> (#[trigger] nz[t]).0 < c.len() && c[nz[t].0 as int] == nz[t].1 && nz[t].1 > 0
    &&& forall|a: int, b: int| #![trigger nz[a], nz[b]] 0 <= a < b < nz.len() ==> nz[a].0 < nz[b].0
    &&& forall|j: int| 0 <= j < c.len() && #[trigger] c[j] > 0 ==> exists|t: int| 0 <= t < nz.len() && (#[trigger] nz[t]).0 == j
}
pub open spec fn hit(nz: Seq<(usize, usize)>, e: int, j: int) -> bool { exists|t: int| 0 <= t < e && (#[trigger] nz[t]).0 == j }
proof fn lemma_hit_step(nz: Seq<(usize, usize)>, e: int)
    requires 0 <= e < nz.len(),
    ensures forall|j: int| #![trigger hit(nz, e + 1, j)] hit(nz, e + 1, j) == (hit(nz, e, j) || nz[e].0 == j),
{
    assert forall|j: int| #![trigger hit(nz, e + 1, j)] hit(nz, e + 1, j) == (hit(nz, e, j) || nz[e].0 == j) by {
        if hit(nz, e, j) { let t = choose|t: int| 0 <= t < e && (#[trigger] nz[t]).0 == j; assert(0 <= t < e + 1 && nz[t].0 == j); }
        if nz[e].0 == j { assert(0 <= e < e + 1 && nz[e].0 == j); }
    }
}
pub struct DenseRow { pub c: Ghost<Seq<int>> }
impl DenseRow {
    #[verifier::external_body] pub fn zeros(n: usize) -> (r: DenseRow) ensures r.c@.len() == n, forall|j: int| 0 <= j < n ==> #[trigger] r.c@[j] == 0 { unimplemented!() }
    #[verifier::external_body] pub fn incr_at(&mut self, j: usize) requires j < old(self).c@.len(), ensures final(self).c@ == old(self).c@.update(j as int, old(self).c@[j as int] + 1) { unimplemented!() }
    // IndexMut: `row[j] op= v` writes through the returned reference
    #[verifier::external_body] pub fn at_mut(&mut self, j: usize) -> (r: &mut usize) requires j < old(self).c@.len(), 0 <= old(self).c@[j as int] <= usize::MAX, ensures *r == old(self).c@[j as int], final(self).c@ == old(self).c@.update(j as int, *final(r) as int) { unimplemented!() }
    #[verifier::external_body] pub fn len(&self) -> (r: usize) ensures r == self.c@.len() { unimplemented!() }
    #[verifier::external_body] pub fn at(&self, j: usize) -> (r: usize) requires j < self.c@.len(), ensures r == self.c@[j as int] { unimplemented!() }
    // .into_iter().enumerate().filter(keep_pred): the (index, value) pairs of the entries the filter closure keeps (keep_pred, verified: the positive ones), in increasing index order (ASSUMED of the iterator adapters)
    #[verifier::external_body] pub fn nonzero_abs(&self) -> (r: Vec<(usize, usize)>) ensures nz_ok(r@, self.c@) { unimplemented!() }
}
// the (index, value) pairs of the non-zero entries among the first n, in increasing index order
pub open spec fn nonzero_upto(c: Seq<int>, n: int) -> Seq<(int, int)> decreases n { if n <= 0 { Seq::empty() } else if c[n - 1] > 0 { nonzero_upto(c, n - 1).push((n - 1, c[n - 1])) } else { nonzero_upto(c, n - 1) } }
pub struct CsVecTok { pub dim: Ghost<int>, pub entries: Ghost<Seq<(int, int)>> }
impl CsVecTok {
    #[verifier::external_body] pub fn empty(n: usize) -> (r: CsVecTok) ensures r.dim@ == n, r.entries@ == Seq::<(int, int)>::empty() { unimplemented!() }
    // sprs CsVec::append panics unless indices arrive in strictly increasing order and below the dimension
    #[verifier::external_body]
    pub fn append(&mut self, i: usize, v: usize)
        requires i < old(self).dim@, old(self).entries@.len() > 0 ==> old(self).entries@.last().0 < i,
        ensures final(self).dim@ == old(self).dim@, final(self).entries@ == old(self).entries@.push((i as int, v as int)),
    { unimplemented!() }
}
pub fn id_bool(b: bool) -> (r: bool) ensures r == b { b }
// the filter closure of the second loop, body extracted from /repo: keeps exactly the positive counts
pub fn keep_pred(f: &usize) -> (r: bool) ensures r == (*f > 0) {
/*@KEEP*/
}
pub struct CountVectorizerV { pub vocabulary: VocabTok }
impl CountVectorizerV {
    // ---- analyze_document, body extracted from /repo on every run (tokenisation dropped) ----
    // C17: "entry (d, j) of the count matrix is the number of occurrences of vocabulary item j in document d, ... out-of-vocabulary tokens
    // contributing nothing": the sparse row holds exactly the non-zero counts, column j = vocabulary index j, and the document frequency of
    // exactly the items that occur goes up by one
    pub fn analyze_document(&self, list: Vec<Vec<ItemTok>>, doc_freqs_in: DenseRow) -> (r: (CsVecTok, DenseRow))
        requires self.vocabulary.wf(), doc_freqs_in.c@.len() == self.vocabulary.n@, self.vocabulary.n@ <= usize::MAX,
            forall|j: int| 0 <= j < self.vocabulary.n@ ==> 0 <= #[trigger] doc_freqs_in.c@[j] < usize::MAX,   // document frequencies are bounded by the number of documents: no overflow
            forall|j: int| 0 <= j < self.vocabulary.n@ ==> occ(flat(list@), self.vocabulary.m@, j) <= usize::MAX,
        ensures r.0.dim@ == self.vocabulary.n@,
            // the sparse row: exactly the positive counts, each with its column, in increasing column order
            (forall|t: int| 0 <= t < r.0.entries@.len() ==> 0 <= (#[trigger] r.0.entries@[t]).0 < self.vocabulary.n@ && r.0.entries@[t].1 == occ(flat(list@), self.vocabulary.m@, r.0.entries@[t].0) && r.0.entries@[t].1 > 0),
            (forall|a: int, b: int| #![trigger r.0.entries@[a], r.0.entries@[b]] 0 <= a < b < r.0.entries@.len() ==> r.0.entries@[a].0 < r.0.entries@[b].0),
            (forall|j: int| 0 <= j < self.vocabulary.n@ && occ(flat(list@), self.vocabulary.m@, j) > 0 ==> exists|t: int| 0 <= t < r.0.entries@.len() && (#[trigger] r.0.entries@[t]).0 == j),
            r.1.c@.len() == self.vocabulary.n@,
            forall|j: int| 0 <= j < self.vocabulary.n@ ==> #[trigger] r.1.c@[j] == doc_freqs_in.c@[j] + (if occ(flat(list@), self.vocabulary.m@, j) > 0 { 1int } else { 0int }),
    {
        let mut doc_freqs = doc_freqs_in;
        let sprs_out = {
/*@AD*/
        };
        (sprs_out, doc_freqs)
    }
    pub fn vacuity_guard_count(&self, list: Vec<Vec<ItemTok>>, doc_freqs_in: DenseRow) -> (r: (CsVecTok, DenseRow))
        requires self.vocabulary.wf(), doc_freqs_in.c@.len() == self.vocabulary.n@, self.vocabulary.n@ <= usize::MAX,
            forall|j: int| 0 <= j < self.vocabulary.n@ ==> 0 <= #[trigger] doc_freqs_in.c@[j] < usize::MAX,   // document frequencies are bounded by the number of documents: no overflow
            forall|j: int| 0 <= j < self.vocabulary.n@ ==> occ(flat(list@), self.vocabulary.m@, j) <= usize::MAX,
        ensures false,
    {
        (CsVecTok::empty(0), doc_freqs_in)
    }
}
} // verus!
fn main() {}
