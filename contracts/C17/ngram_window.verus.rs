//! property: C17
//! unit: V-C17-ngram-window
//! tier: quick
//! fns: linfa_preprocessing::helpers::NGramList::ngram_items (general path: window arithmetic and both loops; String building dropped)
//@ extract WINDOW from algorithms/linfa-preprocessing/src/helpers.rs anchor "let len = self.list.len();" until "let mut item = self.list[index].to_string();"
//@ rewrite WINDOW "self.list.len()" => "list_len"
//@ rewrite WINDOW "self.min" => "min"
//@ rewrite WINDOW "self.max" => "max"
//@ extract LOOP1 from algorithms/linfa-preprocessing/src/helpers.rs anchor "for j in (index + 1)..min_end {" block
//@ drop LOOP1 from "item.push(' ');" through "item.push_str(self.list[j]);" as "proof { assert(j < list_len); item@ = item@.push(j as int); }"
//@ insert LOOP1 before-brace "for j in (index + 1)..min_end" : invariant index + 1 <= min_end <= list_len, item@ =~= Seq::new((j - index) as nat, |t: int| index + t),
//@ extract LOOP2 from algorithms/linfa-preprocessing/src/helpers.rs anchor "for j in min_end..max_end {" block
//@ drop LOOP2 from "item.push(' ');" through "items.push(item.clone())" as "proof { assert(j < list_len); item@ = item@.push(j as int); items@ = items@.push(item@); }"
//@ insert LOOP2 before-brace "for j in min_end..max_end" : invariant index < min_end <= max_end <= list_len, min_end == index + min, item@ =~= Seq::new((j - index) as nat, |t: int| index + t), items@.len() == j - min_end + 1, forall|k: int| 0 <= k < items@.len() ==> #[trigger] items@[k] =~= window(index as int, min as int + k),
//@ expect-fail vacuity_guard_window
use vstd::prelude::*;
verus! {
// the n-gram of `len` tokens starting at token `start`, as the sequence of its token positions
pub open spec fn window(start: int, len: int) -> Seq<int> {
    Seq::new(len as nat, |t: int| start + t)
}

// number of n-gram lengths in min..=max that fit behind `index` in a list of `list_len` tokens
pub open spec fn longest(list_len: int, max: int, index: int) -> int {
    if index + max <= list_len { max } else { list_len - index }
}

// ---- general path of NGramList::ngram_items (self.max != 1): statements extracted from /repo on every run.
// `self.list.len()`, `self.min`, `self.max` become parameters; the String operations (push(' '), push_str(list[j]),
// items.push(item.clone())) are dropped and replaced by ghost bookkeeping of WHICH token positions were appended, with the
// bound check `j < list_len` of the dropped `self.list[j]` kept as an assertion.
fn ngram_items_windows(list_len: usize, min: usize, max: usize, index: usize) -> (r: Option<Ghost<Seq<Seq<int>>>>)
    requires 1 <= min <= max, index + max <= usize::MAX,
    ensures
        r.is_none() <==> index + min > list_len,                       // None iff not even the shortest fits
        r.is_some() ==> ({
            let items = r.unwrap()@;
            &&& items.len() == longest(list_len as int, max as int, index as int) - min + 1     // exactly the lengths min..=max that fit
            &&& forall|k: int| 0 <= k < items.len() ==> #[trigger] items[k] =~= window(index as int, min + k)   // increasing length, all starting at `index`, contiguous
        }),
{
    let mut items: Ghost<Seq<Seq<int>>> = Ghost(Seq::empty());        // stands for `let mut items = Vec::new();`
/*@WINDOW*/
    proof { assert(index < list_len); }                                // bound check of `self.list[index]`
    let mut item: Ghost<Seq<int>> = Ghost(Seq::empty().push(index as int));      // stands for `let mut item = self.list[index].to_string();`
/*@LOOP1*/
    proof { items@ = items@.push(item@); }                             // stands for `items.push(item.clone());`
/*@LOOP2*/
    Some(items)
}

fn vacuity_guard_window(list_len: usize, min: usize, max: usize, index: usize) -> (r: Option<Ghost<Seq<Seq<int>>>>)
    requires 1 <= min <= max, index + max <= usize::MAX,
    ensures false,
{
    None
}
} // verus!
fn main() {}
