//! property: C17
//! unit: V-C17-tfidf-product
//! tier: quick
//! fns: linfa_preprocessing::tf_idf_vectorization::FittedTfIdfVectorizer::apply_tf_idf (which count is multiplied by which inverse document frequency)
//@ extract TF from algorithms/linfa-preprocessing/src/tf_idf_vectorization.rs anchor "fn apply_tf_idf(" body
//@ rewrite TF "let mut term_freqs: CsMat<f64> = term_freqs.map(|x| *x as f64);" => "let mut term_freqs = term_freqs.map_to_f64_abs();   /* term_freqs.map(|x| *x as f64) */"
//@ rewrite TF "doc_freqs.mapv(|doc_freq| self.method.compute_idf(" => "doc_freqs.mapv_idf_abs(&self.method,   /* doc_freqs.mapv(|doc_freq| self.method.compute_idf(n, doc_freq)) */ "
//@ rewrite TF ", doc_freq));" => ");"
//@ rewrite TF "for mut row_vec in term_freqs.outer_iterator_mut() {" => "let n_rows = term_freqs.rows(); for r in 0..n_rows { let row_vec = term_freqs.row_tok(r);   /* for mut row_vec in term_freqs.outer_iterator_mut() */"
//@ rewrite TF "for (col_i, val) in row_vec.iter_mut() {" => "for e in 0..row_vec.nnz() { let col_i = row_vec.col_of(e);   /* for (col_i, val) in row_vec.iter_mut() */"
//@ rewrite TF "*val *= inv_doc_freqs[col_i];" => "term_freqs.scale_entry(r, e, inv_doc_freqs.at(col_i));   /* *val *= inv_doc_freqs[col_i] */"
//@ insert TF before-brace "for r in 0..n_rows " : invariant n_rows == m0.nrows@, term_freqs.wf(), term_freqs.nrows@ == m0.nrows@, term_freqs.ncols@ == m0.ncols@, term_freqs.cols@ == m0.cols@, inv_doc_freqs.n@ == m0.ncols@, inv_doc_freqs.rows_used@ == m0.nrows@, inv_doc_freqs.df_of@ == df_id, forall|rr: int, ee: int| 0 <= rr < m0.nrows@ && 0 <= ee < m0.cols@[rr].len() ==> #[trigger] term_freqs.vals@[rr][ee] == (if rr < r { V::CountTimesIdf(rr, ee, m0.cols@[rr][ee], m0.nrows@, df_id) } else { V::Count(rr, ee) }),
//@ insert TF before-brace "for e in 0..row_vec.nnz() " : invariant n_rows == m0.nrows@, r < m0.nrows@, row_vec.r@ == r, row_vec.cols@ == m0.cols@[r as int], term_freqs.wf(), term_freqs.nrows@ == m0.nrows@, term_freqs.ncols@ == m0.ncols@, term_freqs.cols@ == m0.cols@, inv_doc_freqs.n@ == m0.ncols@, inv_doc_freqs.rows_used@ == m0.nrows@, inv_doc_freqs.df_of@ == df_id, forall|rr: int, ee: int| 0 <= rr < m0.nrows@ && 0 <= ee < m0.cols@[rr].len() ==> #[trigger] term_freqs.vals@[rr][ee] == (if rr < r || (rr == r && ee < e) { V::CountTimesIdf(rr, ee, m0.cols@[rr][ee], m0.nrows@, df_id) } else { V::Count(rr, ee) }),
//@ expect-fail vacuity_guard_tfidf
use vstd::prelude::*;
verus! {
// a stored value: the count of stored entry e of row r, or that count times idf(method, n_documents, doc_freqs[col]) with doc_freqs = array `df`
pub enum V { Count(int, int), CountTimesIdf(int, int, int, int, int) }
pub struct MethodTok;
pub struct IdfTok { pub col: Ghost<int>, pub rows_used: Ghost<int>, pub df_of: Ghost<int> }
pub struct IdfVec { pub n: Ghost<int>, pub rows_used: Ghost<int>, pub df_of: Ghost<int> }
impl IdfVec { #[verifier::external_body] pub fn at(&self, c: usize) -> (r: IdfTok) requires c < self.n@, ensures r.col@ == c, r.rows_used@ == self.rows_used@, r.df_of@ == self.df_of@ { unimplemented!() } }
pub struct DfVec { pub n: Ghost<int>, pub id: Ghost<int> }
impl DfVec {
    // entry j: compute_idf(n, doc_freqs[j]) for the n that is passed in (V-... the idf formulas themselves: K-c17_idf_*)
    #[verifier::external_body] pub fn mapv_idf_abs(&self, m: &MethodTok, n_docs: usize) -> (r: IdfVec) ensures r.n@ == self.n@, r.rows_used@ == n_docs, r.df_of@ == self.id@ { unimplemented!() }
}
// CSR matrix: per row the columns of its stored entries and the stored values
pub struct CsMatTok { pub nrows: Ghost<int>, pub ncols: Ghost<int>, pub cols: Ghost<Seq<Seq<int>>>, pub vals: Ghost<Seq<Seq<V>>> }
pub struct RowTok { pub r: Ghost<int>, pub cols: Ghost<Seq<int>> }
impl RowTok {
    #[verifier::external_body] pub fn nnz(&self) -> (n: usize) ensures n == self.cols@.len() { unimplemented!() }
    #[verifier::external_body] pub fn col_of(&self, e: usize) -> (c: usize) requires e < self.cols@.len(), ensures c == self.cols@[e as int] { unimplemented!() }
}
impl CsMatTok {
    pub open spec fn wf(&self) -> bool {
        self.cols@.len() == self.nrows@ && self.vals@.len() == self.nrows@ && self.nrows@ <= usize::MAX
        && forall|r: int| 0 <= r < self.nrows@ ==> (#[trigger] self.cols@[r]).len() == self.vals@[r].len() && self.cols@[r].len() <= usize::MAX
            && forall|e: int| 0 <= e < self.cols@[r].len() ==> 0 <= #[trigger] self.cols@[r][e] < self.ncols@ && self.cols@[r][e] <= usize::MAX
    }
    #[verifier::external_body] pub fn map_to_f64_abs(self) -> (r: CsMatTok) ensures r == self { unimplemented!() }
    #[verifier::external_body] pub fn rows(&self) -> (n: usize) ensures n == self.nrows@ { unimplemented!() }
    #[verifier::external_body] pub fn cols(&self) -> (n: usize) ensures n == self.ncols@ { unimplemented!() }
    #[verifier::external_body] pub fn row_tok(&self, r: usize) -> (v: RowTok) requires r < self.nrows@, self.wf(), ensures v.r@ == r, v.cols@ == self.cols@[r as int] { unimplemented!() }
    #[verifier::external_body]
    pub fn scale_entry(&mut self, r: usize, e: usize, f: IdfTok)
        requires old(self).wf(), r < old(self).nrows@, e < old(self).cols@[r as int].len(), old(self).vals@[r as int][e as int] is Count,
        ensures final(self).nrows@ == old(self).nrows@, final(self).ncols@ == old(self).ncols@, final(self).cols@ == old(self).cols@, final(self).wf(),
            final(self).vals@ == old(self).vals@.update(r as int, old(self).vals@[r as int].update(e as int,
                V::CountTimesIdf(old(self).vals@[r as int][e as int]->Count_0, old(self).vals@[r as int][e as int]->Count_1, f.col@, f.rows_used@, f.df_of@))),
    { unimplemented!() }
}
pub struct FittedV { pub method: MethodTok }
impl FittedV {
    // ---- apply_tf_idf, body extracted from /repo on every run ----
    // C17: "each tf-idf entry is that count times the documented inverse document frequency of item j over the transformed corpus": stored
    // entry (r, e) in column c becomes count(r, e) * idf(method, number of rows of THIS matrix, doc_freqs[c]) with the doc_freqs that were passed in
    pub fn apply_tf_idf(&self, term_freqs: CsMatTok, doc_freqs: DfVec) -> (out: CsMatTok)
        requires term_freqs.wf(), doc_freqs.n@ == term_freqs.ncols@,
            forall|rr: int, ee: int| 0 <= rr < term_freqs.nrows@ && 0 <= ee < term_freqs.cols@[rr].len() ==> #[trigger] term_freqs.vals@[rr][ee] == V::Count(rr, ee),
        ensures out.cols@ == term_freqs.cols@, out.nrows@ == term_freqs.nrows@,
            forall|rr: int, ee: int| 0 <= rr < term_freqs.nrows@ && 0 <= ee < term_freqs.cols@[rr].len() ==> #[trigger] out.vals@[rr][ee] == V::CountTimesIdf(rr, ee, term_freqs.cols@[rr][ee], term_freqs.nrows@, doc_freqs.id@),
    {
        let ghost m0 = term_freqs;
        let ghost df_id = doc_freqs.id@;
/*@TF*/
    }
    pub fn vacuity_guard_tfidf(&self, term_freqs: CsMatTok, doc_freqs: DfVec) -> (out: CsMatTok)
        requires term_freqs.wf(), doc_freqs.n@ == term_freqs.ncols@,
            forall|rr: int, ee: int| 0 <= rr < term_freqs.nrows@ && 0 <= ee < term_freqs.cols@[rr].len() ==> #[trigger] term_freqs.vals@[rr][ee] == V::Count(rr, ee),
        ensures false,
    {
        term_freqs
    }
}
} // verus!
fn main() {}
