//! property: C17
//! unit: V-C17-reindex
//! tier: quick
//! fns: linfa_preprocessing::countgrams::hashmap_to_vocabulary (column index of every entry = its position in the vocabulary list)
//@ extract RI from algorithms/linfa-preprocessing/src/countgrams/mod.rs anchor "fn hashmap_to_vocabulary(map: &mut HashMap<String, (usize, usize)>) -> Vec<String> {" body
//@ rewrite RI "let mut vec = Vec::with_capacity(map.len());" => "let mut vec: Vec<WordTok> = Vec::new();   /* Vec::with_capacity(map.len()) */"
//@ rewrite RI "for (word, (ref mut idx, _)) in map {" => "let n_entries = map.len(); for e in 0..n_entries { let word = map.word_at(e);   /* for (word, (ref mut idx, _)) in map: entry number e of the iteration */"
//@ rewrite RI "*idx = vec.len();" => "map.set_index_at(e, vec.len());   /* *idx = vec.len() */"
//@ insert RI before-brace "for e in 0..n_entries " : invariant n_entries == n0, map.n@ == n0, map.words@ == w0, map.idx@.len() == n0, vec@.len() == e, (forall|t: int| 0 <= t < e ==> #[trigger] map.idx@[t] == t), (forall|t: int| 0 <= t < e ==> (#[trigger] vec@[t]).w@ == w0[t]),
//@ expect-fail vacuity_guard_reindex
use vstd::prelude::*;
verus! {
pub struct WordTok { pub w: Ghost<int> }
impl WordTok { pub fn clone(&self) -> (r: WordTok) ensures r.w@ == self.w@ { WordTok { w: Ghost(self.w@) } } }
// HashMap<String, (index, document frequency)> in SOME iteration order: entry e has a word and an index field
pub struct MapTok { pub n: Ghost<int>, pub words: Ghost<Seq<int>>, pub idx: Ghost<Seq<int>> }
impl MapTok {
    #[verifier::external_body] pub fn len(&self) -> (r: usize) ensures r == self.n@ { unimplemented!() }
    #[verifier::external_body] pub fn word_at(&self, e: usize) -> (r: WordTok) requires e < self.n@, ensures r.w@ == self.words@[e as int] { unimplemented!() }
    #[verifier::external_body]
    pub fn set_index_at(&mut self, e: usize, i: usize)
        requires e < old(self).n@, old(self).idx@.len() == old(self).n@,
        ensures final(self).n@ == old(self).n@, final(self).words@ == old(self).words@, final(self).idx@ == old(self).idx@.update(e as int, i as int),
    { unimplemented!() }
}
// ---- hashmap_to_vocabulary, body extracted from /repo on every run ----
// C17 "Column j always refers to vocabulary()[j]": after re-indexing, the index stored with every word is the position of that word in the
// returned list, and the indices are exactly 0..len
pub fn hashmap_to_vocabulary(map: &mut MapTok) -> (r: Vec<WordTok>)
    requires old(map).words@.len() == old(map).n@, old(map).idx@.len() == old(map).n@, old(map).n@ <= usize::MAX,
    ensures r@.len() == old(map).n@, final(map).words@ == old(map).words@,
        forall|t: int| 0 <= t < old(map).n@ ==> #[trigger] final(map).idx@[t] == t,
        forall|t: int| 0 <= t < old(map).n@ ==> (#[trigger] r@[t]).w@ == old(map).words@[t],
{
    let ghost n0 = map.n@;
    let ghost w0 = map.words@;
/*@RI*/
}
pub fn vacuity_guard_reindex(map: &mut MapTok) -> (r: Vec<WordTok>)
    requires old(map).words@.len() == old(map).n@, old(map).idx@.len() == old(map).n@, old(map).n@ <= usize::MAX,
    ensures false,
{
    Vec::new()
}
} // verus!
fn main() {}
