//! property: C17
//! attach: algorithms/linfa-preprocessing/src/helpers.rs
//! module: vk_c17_ngram
// @include common/prelude.rs
use super::*;

// NGramList over the fixed token sequence a b c.  Oracle (statement + rustdoc of NGramList):
// `ngram_items(i)` = the n-grams that START at token i, of lengths min..=max that fit into the sequence,
// in increasing length, tokens joined by single spaces; None iff not even the length-`min` one fits.
// The n-gram of length L starting at token i of "a b c" is the byte range [2i, 2i+2L-1) of that string,
// so the expectation is written without re-implementing the windowing.
// (min,max,index) are CONCRETE per harness: symbolic triples did not finish in 8 min (DESIGN section 6).
const C17_TEXT: &str = "a b c";

fn c17_ngram_check(min: usize, max: usize, index: usize) -> Option<usize> {
    let l = NGramList::new(vec!["a", "b", "c"], (min, max));
    let r = l.ngram_items(index);
    let fits = index + min <= 3;
    assert!(r.is_some() == fits);
    let items = r?;
    let longest = if index + max <= 3 { max } else { 3 - index };
    assert!(items.len() == longest - min + 1);
    for k in 0..items.len() {
        let len = min + k;
        assert!(items[k] == C17_TEXT[2 * index..2 * index + 2 * len - 1]);
    }
    Some(items.len())
}

// @unit class=bounded tier=quick mem=light bound="tokens a b c; (min,max)=(1,1), index 0..2" timeout=900 fns=linfa_preprocessing::helpers::NGramList::ngram_items
#[kani::proof]
#[kani::unwind(8)]
#[kani::stub(alloc::fmt::format, fmt_stub)]
fn c17_ngram_1_1() {
    assert!(c17_ngram_check(1, 1, 0) == Some(1));
    assert!(c17_ngram_check(1, 1, 1) == Some(1));
    assert!(c17_ngram_check(1, 1, 2) == Some(1));
    kani::cover!(true);
}

// @unit class=bounded tier=quick mem=light bound="tokens a b c; (min,max)=(1,2), index 0..2" timeout=900 fns=linfa_preprocessing::helpers::NGramList::ngram_items
#[kani::proof]
#[kani::unwind(8)]
#[kani::stub(alloc::fmt::format, fmt_stub)]
fn c17_ngram_1_2() {
    assert!(c17_ngram_check(1, 2, 0) == Some(2));
    assert!(c17_ngram_check(1, 2, 1) == Some(2));
    assert!(c17_ngram_check(1, 2, 2) == Some(1));
    kani::cover!(true);
}

// @unit class=bounded tier=quick mem=light bound="tokens a b c; (min,max)=(1,3), index 0..2" timeout=900 fns=linfa_preprocessing::helpers::NGramList::ngram_items
#[kani::proof]
#[kani::unwind(8)]
#[kani::stub(alloc::fmt::format, fmt_stub)]
fn c17_ngram_1_3() {
    assert!(c17_ngram_check(1, 3, 0) == Some(3));
    assert!(c17_ngram_check(1, 3, 1) == Some(2));
    assert!(c17_ngram_check(1, 3, 2) == Some(1));
    kani::cover!(true);
}

// @unit class=bounded tier=quick mem=light bound="tokens a b c; (min,max)=(2,2), index 0..2" timeout=900 fns=linfa_preprocessing::helpers::NGramList::ngram_items
#[kani::proof]
#[kani::unwind(8)]
#[kani::stub(alloc::fmt::format, fmt_stub)]
fn c17_ngram_2_2() {
    assert!(c17_ngram_check(2, 2, 0) == Some(1));
    assert!(c17_ngram_check(2, 2, 1) == Some(1));
    assert!(c17_ngram_check(2, 2, 2) == None);
    kani::cover!(true);
}

// @unit class=bounded tier=quick mem=light bound="tokens a b c; (min,max)=(2,3), index 0..2" timeout=900 fns=linfa_preprocessing::helpers::NGramList::ngram_items
#[kani::proof]
#[kani::unwind(8)]
#[kani::stub(alloc::fmt::format, fmt_stub)]
fn c17_ngram_2_3() {
    assert!(c17_ngram_check(2, 3, 0) == Some(2));
    assert!(c17_ngram_check(2, 3, 1) == Some(1));
    assert!(c17_ngram_check(2, 3, 2) == None);
    kani::cover!(true);
}

// @unit class=bounded tier=quick mem=light bound="tokens a b c; (min,max)=(3,3), index 0..2" timeout=900 fns=linfa_preprocessing::helpers::NGramList::ngram_items
#[kani::proof]
#[kani::unwind(8)]
#[kani::stub(alloc::fmt::format, fmt_stub)]
fn c17_ngram_3_3() {
    assert!(c17_ngram_check(3, 3, 0) == Some(1));
    assert!(c17_ngram_check(3, 3, 1) == None);
    assert!(c17_ngram_check(3, 3, 2) == None);
    kani::cover!(true);
}

// the iterator yields ngram_items(0), ngram_items(1), ... and stops at the first start position whose shortest n-gram
// does not fit: exactly 3 - min + 1 items for three tokens, item i holding the n-grams that start at token i
fn c17_iter_check(min: usize, max: usize) -> usize {
    let mut it = NGramList::new(vec!["a", "b", "c"], (min, max)).into_iter();
    let mut i = 0;
    while let Some(items) = it.next() {
        assert!(i + min <= 3);
        let longest = if i + max <= 3 { max } else { 3 - i };
        assert!(items.len() == longest - min + 1);
        assert!(items[0] == C17_TEXT[2 * i..2 * i + 2 * min - 1]);
        assert!(items[items.len() - 1] == C17_TEXT[2 * i..2 * i + 2 * longest - 1]);
        i += 1;
    }
    assert!(it.next().is_none());                                      // stays exhausted
    i
}

// @unit class=bounded tier=quick mem=light bound="tokens a b c; (min,max)=(1,1)" timeout=900 fns=linfa_preprocessing::helpers::NGramListIntoIterator::next,linfa_preprocessing::helpers::NGramList::into_iter,linfa_preprocessing::helpers::NGramList::ngram_items
#[kani::proof]
#[kani::unwind(8)]
#[kani::stub(alloc::fmt::format, fmt_stub)]
fn c17_ngram_iter_1_1() {
    let n = c17_iter_check(1, 1);
    assert!(n == 3);
    kani::cover!(n == 3);
}

// @unit class=bounded tier=quick mem=light bound="tokens a b c; (min,max)=(1,2)" timeout=900 fns=linfa_preprocessing::helpers::NGramListIntoIterator::next,linfa_preprocessing::helpers::NGramList::into_iter,linfa_preprocessing::helpers::NGramList::ngram_items
#[kani::proof]
#[kani::unwind(8)]
#[kani::stub(alloc::fmt::format, fmt_stub)]
fn c17_ngram_iter_1_2() {
    let n = c17_iter_check(1, 2);
    assert!(n == 3);
    kani::cover!(n == 3);
}

// @unit class=bounded tier=quick mem=light bound="tokens a b c; (min,max)=(1,3)" timeout=900 fns=linfa_preprocessing::helpers::NGramListIntoIterator::next,linfa_preprocessing::helpers::NGramList::into_iter,linfa_preprocessing::helpers::NGramList::ngram_items
#[kani::proof]
#[kani::unwind(8)]
#[kani::stub(alloc::fmt::format, fmt_stub)]
fn c17_ngram_iter_1_3() {
    let n = c17_iter_check(1, 3);
    assert!(n == 3);
    kani::cover!(n == 3);
}

// @unit class=bounded tier=quick mem=light bound="tokens a b c; (min,max)=(2,2)" timeout=900 fns=linfa_preprocessing::helpers::NGramListIntoIterator::next,linfa_preprocessing::helpers::NGramList::into_iter,linfa_preprocessing::helpers::NGramList::ngram_items
#[kani::proof]
#[kani::unwind(8)]
#[kani::stub(alloc::fmt::format, fmt_stub)]
fn c17_ngram_iter_2_2() {
    let n = c17_iter_check(2, 2);
    assert!(n == 2);
    kani::cover!(n == 2);
}

// @unit class=bounded tier=quick mem=light bound="tokens a b c; (min,max)=(2,3)" timeout=900 fns=linfa_preprocessing::helpers::NGramListIntoIterator::next,linfa_preprocessing::helpers::NGramList::into_iter,linfa_preprocessing::helpers::NGramList::ngram_items
#[kani::proof]
#[kani::unwind(8)]
#[kani::stub(alloc::fmt::format, fmt_stub)]
fn c17_ngram_iter_2_3() {
    let n = c17_iter_check(2, 3);
    assert!(n == 2);
    kani::cover!(n == 2);
}

// @unit class=bounded tier=quick mem=light bound="tokens a b c; (min,max)=(3,3)" timeout=900 fns=linfa_preprocessing::helpers::NGramListIntoIterator::next,linfa_preprocessing::helpers::NGramList::into_iter,linfa_preprocessing::helpers::NGramList::ngram_items
#[kani::proof]
#[kani::unwind(8)]
#[kani::stub(alloc::fmt::format, fmt_stub)]
fn c17_ngram_iter_3_3() {
    let n = c17_iter_check(3, 3);
    assert!(n == 1);
    kani::cover!(n == 1);
}
