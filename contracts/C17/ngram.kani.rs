//! property: C17
//! attach: algorithms/linfa-preprocessing/src/helpers.rs
//! module: vk_c17_ngram
// @include common/prelude.rs
use super::*;

// NGramList over the fixed token sequence a b c.  Oracle (statement + rustdoc of NGramList):
// `ngram_items(i)` = the n-grams that START at token i, of lengths min..=max that fit into the sequence,
// in increasing length, tokens joined by single spaces; None iff not even the length-`min` one fits.
// The n-gram of length L starting at token i of "a b c" is the byte range [2i, 2i+2L-1) of that string,
// so the expectation is written without re-implementing the windowing.
// (min,max,index) are CONCRETE per harness: symbolic triples did not finish in 8 min (DESIGN section 6).
const C17_TEXT: &str = "a b c";

fn c17_ngram_check(min: usize, max: usize, index: usize) -> Option<usize> {
    let l = NGramList::new(vec!["a", "b", "c"], (min, max));
    let r = l.ngram_items(index);
    let fits = index + min <= 3;
    assert!(r.is_some() == fits);
    let items = r?;
    let longest = if index + max <= 3 { max } else { 3 - index };
    assert!(items.len() == longest - min + 1);
    for k in 0..items.len() {
        let len = min + k;
        assert!(items[k] == C17_TEXT[2 * index..2 * index + 2 * len - 1]);
    }
    Some(items.len())
}

// @unit class=bounded tier=quick mem=light bound="tokens a b c; (min,max)=(1,1), index 0..2" timeout=900 fns=linfa_preprocessing::helpers::NGramList::ngram_items
#[kani::proof]
#[kani::unwind(8)]
#[kani::stub(alloc::fmt::format, fmt_stub)]
fn c17_ngram_1_1() {
    assert!(c17_ngram_check(1, 1, 0) == Some(1));
    assert!(c17_ngram_check(1, 1, 1) == Some(1));
    assert!(c17_ngram_check(1, 1, 2) == Some(1));
    kani::cover!(true);
}

// @unit class=bounded tier=quick mem=light bound="tokens a b c; (min,max)=(1,2), index 0..2" timeout=900 fns=linfa_preprocessing::helpers::NGramList::ngram_items
#[kani::proof]
#[kani::unwind(8)]
#[kani::stub(alloc::fmt::format, fmt_stub)]
fn c17_ngram_1_2() {
    assert!(c17_ngram_check(1, 2, 0) == Some(2));
    assert!(c17_ngram_check(1, 2, 1) == Some(2));
    assert!(c17_ngram_check(1, 2, 2) == Some(1));
    kani::cover!(true);
}

// @unit class=bounded tier=quick mem=light bound="tokens a b c; (min,max)=(1,3), index 0..2" timeout=900 fns=linfa_preprocessing::helpers::NGramList::ngram_items
#[kani::proof]
#[kani::unwind(8)]
#[kani::stub(alloc::fmt::format, fmt_stub)]
fn c17_ngram_1_3() {
    assert!(c17_ngram_check(1, 3, 0) == Some(3));
    assert!(c17_ngram_check(1, 3, 1) == Some(2));
    assert!(c17_ngram_check(1, 3, 2) == Some(1));
    kani::cover!(true);
}

// @unit class=bounded tier=quick mem=light bound="tokens a b c; (min,max)=(2,2), index 0..2" timeout=900 fns=linfa_preprocessing::helpers::NGramList::ngram_items
#[kani::proof]
#[kani::unwind(8)]
#[kani::stub(alloc::fmt::format, fmt_stub)]
fn c17_ngram_2_2() {
    assert!(c17_ngram_check(2, 2, 0) == Some(1));
    assert!(c17_ngram_check(2, 2, 1) == Some(1));
    assert!(c17_ngram_check(2, 2, 2) == None);
    kani::cover!(true);
}

// @unit class=bounded tier=quick mem=light bound="tokens a b c; (min,max)=(2,3), index 0..2" timeout=900 fns=linfa_preprocessing::helpers::NGramList::ngram_items
#[kani::proof]
#[kani::unwind(8)]
#[kani::stub(alloc::fmt::format, fmt_stub)]
fn c17_ngram_2_3() {
    assert!(c17_ngram_check(2, 3, 0) == Some(2));
    assert!(c17_ngram_check(2, 3, 1) == Some(1));
    assert!(c17_ngram_check(2, 3, 2) == None);
    kani::cover!(true);
}

// @unit class=bounded tier=quick mem=light bound="tokens a b c; (min,max)=(3,3), index 0..2" timeout=900 fns=linfa_preprocessing::helpers::NGramList::ngram_items
#[kani::proof]
#[kani::unwind(8)]
#[kani::stub(alloc::fmt::format, fmt_stub)]
fn c17_ngram_3_3() {
    assert!(c17_ngram_check(3, 3, 0) == Some(1));
    assert!(c17_ngram_check(3, 3, 1) == None);
    assert!(c17_ngram_check(3, 3, 2) == None);
    kani::cover!(true);
}
