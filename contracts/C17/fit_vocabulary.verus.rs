//! property: C17
//! unit: V-C17-fit-vocabulary
//! tier: quick
//! fns: linfa_preprocessing::countgrams::CountVectorizerValidParams::fit_vocabulary (fixed vocabulary: the word-to-column map and the column-to-word list are built from the same de-duplicated entries)
//@ extract FV from algorithms/linfa-preprocessing/src/countgrams/mod.rs anchor "pub fn fit_vocabulary<T: ToString>(&self, words: &[T]) -> Result<CountVectorizer> {" body after "impl CountVectorizerValidParams {"
//@ rewrite FV "let mut vocabulary: HashMap<String, (usize, usize)> = HashMap::with_capacity(words.len());" => "let mut vocabulary = MapTok::with_capacity(words.len());"
//@ rewrite FV "for item in words.iter().map(|w| w.to_string()) {" => "for wi in 0..words.len()   /* for item in words.iter().map(|w| w.to_string()) */ { let item = words.to_string_abs(wi);"
//@ rewrite FV "vocabulary.entry(item).or_insert((len, 1));" => "vocabulary.entry_or_insert_abs(item, (len, 1));   /* vocabulary.entry(item).or_insert((len, 1)) */"
//@ rewrite? FV "Vec::with_capacity(words.len())" => "Vec::<WordTok>::new()   /* Vec::with_capacity(words.len()) */"
//@ insert FV before-brace "for wi in 0..words.len() " : invariant vocabulary.wf(), forall|k: int| 0 <= k < wi ==> has(vocabulary.words@, #[trigger] words.w@[k]), forall|t: int| 0 <= t < vocabulary.n@ ==> from_words(#[trigger] vocabulary.words@[t], words.w@, wi as int), vocabulary.n@ <= wi,
//@ rewrite FV "Ok(CountVectorizer {" => "Ok(CountVectorizerV {"
//@ expect-fail vacuity_guard_fv
use vstd::prelude::*;
verus! {
pub struct WordTok { pub w: Ghost<int> }
impl WordTok { pub fn clone(&self) -> (r: WordTok) ensures r.w@ == self.w@ { WordTok { w: Ghost(self.w@) } } }
pub struct WordsTok { pub w: Ghost<Seq<int>> }
impl WordsTok {
    #[verifier::external_body] pub fn len(&self) -> (r: usize) ensures r == self.w@.len() { unimplemented!() }
    #[verifier::external_body] pub fn to_string_abs(&self, i: usize) -> (r: WordTok) requires i < self.w@.len(), ensures r.w@ == self.w@[i as int] { unimplemented!() }
}
// HashMap<String, (index, document frequency)> in SOME iteration order: entry e has a word (a key: all different) and an index field
pub open spec fn has(s: Seq<int>, w: int) -> bool { exists|t: int| 0 <= t < s.len() && #[trigger] s[t] == w }
pub open spec fn from_words(w: int, words: Seq<int>, upto: int) -> bool { exists|k: int| 0 <= k < upto && #[trigger] words[k] == w }
pub struct MapTok { pub n: Ghost<int>, pub words: Ghost<Seq<int>>, pub idx: Ghost<Seq<int>> }
impl MapTok {
    pub open spec fn wf(&self) -> bool {
        self.words@.len() == self.n@ && self.idx@.len() == self.n@ && self.n@ >= 0
        && forall|a: int, b: int| 0 <= a < b < self.n@ ==> self.words@[a] != self.words@[b]
    }
    #[verifier::external_body] pub fn with_capacity(c: usize) -> (r: MapTok) ensures r.n@ == 0, r.words@.len() == 0, r.idx@.len() == 0 { unimplemented!() }
    #[verifier::external_body] pub fn len(&self) -> (r: usize) ensures r == self.n@ { unimplemented!() }
    // ASSUMED of std: entry(k).or_insert(v) leaves the map alone when the key is present and adds (k, v) otherwise
    #[verifier::external_body]
    pub fn entry_or_insert_abs(&mut self, k: WordTok, v: (usize, usize))
        requires old(self).wf(),
        ensures final(self).wf(), old(self).n@ <= final(self).n@ <= old(self).n@ + 1,
            has(final(self).words@, k.w@),
            forall|w: int| has(old(self).words@, w) ==> has(final(self).words@, w),
            forall|t: int| 0 <= t < final(self).n@ ==> #[trigger] final(self).words@[t] == k.w@ || (t < old(self).n@ && final(self).words@[t] == old(self).words@[t]),
            has(old(self).words@, k.w@) ==> final(self).n@ == old(self).n@,
    { unimplemented!() }
}
// hashmap_to_vocabulary: contract proved from its extracted body by V-C17-reindex
#[verifier::external_body]
pub fn hashmap_to_vocabulary(map: &mut MapTok) -> (r: Vec<WordTok>)
    requires old(map).words@.len() == old(map).n@, old(map).idx@.len() == old(map).n@, old(map).n@ <= usize::MAX,
    ensures r@.len() == old(map).n@, final(map).words@ == old(map).words@, final(map).n@ == old(map).n@, final(map).idx@.len() == old(map).n@,
        forall|t: int| 0 <= t < old(map).n@ ==> #[trigger] final(map).idx@[t] == t,
        forall|t: int| 0 <= t < old(map).n@ ==> (#[trigger] r@[t]).w@ == old(map).words@[t],
{ unimplemented!() }
#[derive(Debug)]
pub struct ErrTok;
pub struct ParamsV { pub id: Ghost<int> }
pub struct CountVectorizerV { pub vocabulary: MapTok, pub vec_vocabulary: Vec<WordTok>, pub properties: ParamsV }
impl ParamsV {
    pub fn clone(&self) -> (r: ParamsV) ensures r.id@ == self.id@ { ParamsV { id: Ghost(self.id@) } }
    // C17 (fixed vocabulary): "Column j always refers to vocabulary()[j]": the list has one item per DISTINCT given word, every map entry's column
    // index is the position of its word in the list, and the entries are exactly the given words
    pub fn fit_vocabulary(&self, words: &WordsTok) -> (r: Result<CountVectorizerV, ErrTok>)
        ensures r.is_ok(), ({ let c = r.unwrap();
            &&& c.vocabulary.wf()
            &&& c.vec_vocabulary@.len() == c.vocabulary.n@
            &&& forall|t: int| 0 <= t < c.vocabulary.n@ ==> #[trigger] c.vocabulary.idx@[t] == t && c.vec_vocabulary@[t].w@ == c.vocabulary.words@[t]
            &&& forall|k: int| 0 <= k < words.w@.len() ==> has(c.vocabulary.words@, #[trigger] words.w@[k])
            &&& forall|t: int| 0 <= t < c.vocabulary.n@ ==> from_words(#[trigger] c.vocabulary.words@[t], words.w@, words.w@.len() as int)
            &&& c.properties.id@ == self.id@ }),
    {
/*@FV*/
    }
    pub fn vacuity_guard_fv(&self, words: &WordsTok) -> (r: Result<CountVectorizerV, ErrTok>)
        ensures false,
    {
        Err(ErrTok)
    }
}
} // verus!
fn main() {}
