//! property: C20
//! unit: V-C20-nb-class-order
//! tier: quick
//! fns: linfa_bayes::base_nb::NaiveBayes::predict_inplace (class list and likelihood rows filled from the same iteration; per-sample arg-max closure)
//@ extract FILL from algorithms/linfa-bayes/src/base_nb.rs anchor "let nclasses = joint_log_likelihood.keys().len();" until "// Identify the class with the maximum log likelihood"
//@ rewrite FILL "joint_log_likelihood.keys().len()" => "joint_log_likelihood.len()   /* .keys().len() */"
//@ rewrite FILL "Vec::with_capacity(nclasses)" => "Vec::<ClassTok>::with_capacity(nclasses)"
//@ rewrite FILL "Array2::zeros((nclasses, n))" => "LikTok::zeros(nclasses, n)"
//@ rewrite? FILL "let mut entries = joint_log_likelihood.iter().collect::<Vec<_>>();" => "let mut entries = joint_log_likelihood.entries_abs();   /* joint_log_likelihood.iter().collect::<Vec<_>>() */"
//@ rewrite? FILL "entries.sort_by(|a, b| a.0.cmp(b.0));" => "entries.sort_by_key_abs(); let ghost e0 = entries;   /* entries.sort_by(|a, b| a.0.cmp(b.0)) */"
//@ rewrite-re? FILL "entries\\s+\\.into_iter\\(\\)\\s+\\.enumerate\\(\\)\\s+\\.for_each\\(\\|\\(i, \\(&key, value\\)\\)\\| \\{" => "for i in 0..entries.len() /*INV_SORTED*/ { let (key, value) = entries.entry(i);   /* entries.into_iter().enumerate().for_each(|(i, (&key, value))| { */"
//@ drop? FILL from "        joint_log_likelihood" through ".for_each(|(i, (&key, value))| {" as "        for i in 0..joint_log_likelihood.len() /*INV*/ { let (key, value) = joint_log_likelihood.entry(i);   /* joint_log_likelihood.iter().enumerate().for_each(|(i, (&key, value))| { */"
//@ rewrite FILL "            });" => "        }"
//@ rewrite? FILL "/*INV*/" => "invariant classes@.len() == i, likelihood.n@ == x.n@, likelihood.rows@.len() == joint_log_likelihood.keys@.len(), joint_log_likelihood.keys@.len() == joint_log_likelihood.vals@.len(), nclasses == joint_log_likelihood.keys@.len(), (forall|t: int| 0 <= t < i ==> (#[trigger] classes@[t]).id@ == joint_log_likelihood.keys@[t]), (forall|t: int| 0 <= t < i ==> #[trigger] likelihood.rows@[t] == joint_log_likelihood.vals@[t]),"
//@ rewrite? FILL "/*INV_SORTED*/" => "invariant classes@.len() == i, likelihood.n@ == x.n@, likelihood.rows@.len() == entries.keys@.len(), entries.keys@.len() == entries.vals@.len(), nclasses == entries.keys@.len(), entries.keys@ == e0.keys@, entries.vals@ == e0.vals@, sorted_view_of(e0, joint_log_likelihood.keys@, joint_log_likelihood.vals@), (forall|t: int| 0 <= t < i ==> (#[trigger] classes@[t]).id@ == entries.keys@[t]), (forall|t: int| 0 <= t < i ==> #[trigger] likelihood.rows@[t] == entries.vals@[t]),"
//@ extract PICK from algorithms/linfa-bayes/src/base_nb.rs anchor "*y = likelihood.map_axis(Axis(0), |x| {" body
//@ expect-fail vacuity_guard_nb
use vstd::prelude::*;
verus! {
pub struct ClassTok { pub id: Ghost<int> }
impl ClassTok { #[verifier::external_body] pub fn clone(&self) -> (r: ClassTok) ensures r.id@ == self.id@ { unimplemented!() } }
pub struct ValTok { pub id: Ghost<int> }                       // one class's vector of per-sample joint log likelihoods
// the HashMap class -> likelihood vector, in the order ONE iteration visits it (any order, fixed within this call)
pub struct JllTok { pub keys: Ghost<Seq<int>>, pub vals: Ghost<Seq<int>> }
impl JllTok {
    #[verifier::external_body] pub fn entries_abs(&self) -> (r: EntriesTok) ensures r.keys@ == self.keys@, r.vals@ == self.vals@, !r.sorted@ { unimplemented!() }
    #[verifier::external_body] pub fn len(&self) -> (r: usize) ensures r == self.keys@.len() { unimplemented!() }
    #[verifier::external_body]
    pub fn entry(&self, i: usize) -> (r: (&ClassTok, &ValTok)) requires i < self.keys@.len(), self.keys@.len() == self.vals@.len(), ensures r.0.id@ == self.keys@[i as int], r.1.id@ == self.vals@[i as int] { unimplemented!() }
}
// the map's entries collected into a vector (same order as one iteration), then sorted by class: `perm[t]` is the iteration position of the
// entry that sits at position t afterwards (ASSUMED of slice::sort_by with the keys' total order; keys of a map are pairwise different)
pub open spec fn pair_at(keys: Seq<int>, vals: Seq<int>, e: int, k: int, v: int) -> bool { keys[e] == k && vals[e] == v }
pub open spec fn paired(keys: Seq<int>, vals: Seq<int>, k: int, v: int) -> bool { exists|e: int| 0 <= e < keys.len() && #[trigger] pair_at(keys, vals, e, k, v) }
pub struct EntriesTok { pub keys: Ghost<Seq<int>>, pub vals: Ghost<Seq<int>>, pub perm: Ghost<Seq<int>>, pub sorted: Ghost<bool> }
pub open spec fn sorted_view_of(s: EntriesTok, keys: Seq<int>, vals: Seq<int>) -> bool {
    &&& s.keys@.len() == keys.len() && s.vals@.len() == keys.len() && s.perm@.len() == keys.len()
    &&& forall|t: int| 0 <= t < keys.len() ==> 0 <= s.perm@[t] < keys.len() && pair_at(keys, vals, s.perm@[t], #[trigger] s.keys@[t], s.vals@[t])
    &&& forall|a: int, b: int| 0 <= a < b < keys.len() ==> #[trigger] s.keys@[a] < #[trigger] s.keys@[b]
}
impl EntriesTok {
    #[verifier::external_body] pub fn len(&self) -> (r: usize) ensures r == self.keys@.len() { unimplemented!() }
    #[verifier::external_body]
    pub fn entry(&self, i: usize) -> (r: (&ClassTok, &ValTok)) requires i < self.keys@.len(), self.keys@.len() == self.vals@.len(), ensures r.0.id@ == self.keys@[i as int], r.1.id@ == self.vals@[i as int] { unimplemented!() }
    #[verifier::external_body]
    pub fn sort_by_key_abs(&mut self)
        requires old(self).keys@.len() == old(self).vals@.len(),
        ensures final(self).sorted@, sorted_view_of(*final(self), old(self).keys@, old(self).vals@),
    { unimplemented!() }
}
pub struct LikTok { pub rows: Ghost<Seq<int>>, pub n: Ghost<int> }      // which likelihood vector sits in which row
impl LikTok {
    #[verifier::external_body] pub fn zeros(k: usize, n: usize) -> (r: LikTok) ensures r.rows@.len() == k, r.n@ == n { unimplemented!() }
    // row_mut(i): a mutable view of row i, panics when i is out of range; what is assigned through it lands in row i
    #[verifier::external_body]
    pub fn row_mut(&mut self, i: usize) -> (r: &mut RowSlot) requires i < old(self).rows@.len(), ensures r.id@ == old(self).rows@[i as int], final(self).rows@ == old(self).rows@.update(i as int, final(r).id@), final(self).n@ == old(self).n@ { unimplemented!() }
}
pub struct RowSlot { pub id: Ghost<int> }
impl RowSlot { #[verifier::external_body] pub fn assign(&mut self, v: &ValTok) ensures final(self).id@ == v.id@ { unimplemented!() } }
pub struct XTok { pub n: Ghost<int> }
impl XTok { #[verifier::external_body] pub fn nrows(&self) -> (r: usize) ensures r == self.n@ { unimplemented!() } }
// one COLUMN of the likelihood matrix = the scores of one sample, one per class; ndarray-stats argmax (ASSUMED): an index of a maximal entry
pub struct ColTok { pub v: Ghost<Seq<int>> }
#[derive(Debug)]
pub struct ErrTok {}
impl ColTok {
    #[verifier::external_body]
    pub fn argmin(&self) -> (r: Result<usize, ErrTok>)
        ensures self.v@.len() > 0 ==> r is Ok, r is Ok ==> (r->Ok_0 < self.v@.len() && forall|j: int| 0 <= j < self.v@.len() ==> #[trigger] self.v@[j] >= self.v@[r->Ok_0 as int]),
    { unimplemented!() }
    #[verifier::external_body]
    pub fn argmax(&self) -> (r: Result<usize, ErrTok>)
        ensures self.v@.len() > 0 ==> r is Ok, r is Ok ==> (r->Ok_0 < self.v@.len() && forall|j: int| 0 <= j < self.v@.len() ==> #[trigger] self.v@[j] <= self.v@[r->Ok_0 as int]),
    { unimplemented!() }
}
// ---- C03 "the prediction for a sample depends only on that sample and the model": row t of the likelihood matrix holds the scores of the class stored
// at position t of the class list (both filled by ONE pass over the map), and sample s gets the class at the position of a maximal entry of column s ----
pub fn fill(joint_log_likelihood: &JllTok, x: &XTok) -> (r: (Vec<ClassTok>, LikTok))
    requires joint_log_likelihood.keys@.len() == joint_log_likelihood.vals@.len(),
    ensures r.0@.len() == joint_log_likelihood.keys@.len(), r.1.rows@.len() == r.0@.len(), r.1.n@ == x.n@,
        // row t holds the scores of the class at position t: both stem from ONE entry of the map
        forall|t: int| 0 <= t < r.0@.len() ==> paired(joint_log_likelihood.keys@, joint_log_likelihood.vals@, (#[trigger] r.0@[t]).id@, r.1.rows@[t]),
        // and the classes are laid out in THE order of the labels, not in the order this call's hash map happens to iterate in: an exact
        // tie is then decided by the model and the sample alone (repaired defect, /repo: naive Bayes tie order)
        forall|a: int, b: int| 0 <= a < b < r.0@.len() ==> (#[trigger] r.0@[a]).id@ < (#[trigger] r.0@[b]).id@,
{
/*@FILL*/
    (classes, likelihood)
}
pub fn pick(x: &ColTok, classes: &Vec<ClassTok>) -> (r: ClassTok)
    requires x.v@.len() == classes@.len(), classes@.len() > 0,
    ensures exists|k: int| 0 <= k < classes@.len() && r.id@ == (#[trigger] classes@[k]).id@ && forall|j: int| 0 <= j < x.v@.len() ==> #[trigger] x.v@[j] <= x.v@[k],
{
/*@PICK*/
}
pub fn vacuity_guard_nb(x: &ColTok, classes: &Vec<ClassTok>) -> (r: ClassTok)
    requires x.v@.len() == classes@.len(), classes@.len() > 0,
    ensures false,
{
    classes[0].clone()
}
} // verus!
fn main() {}
