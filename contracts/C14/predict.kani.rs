//! property: C14
//! attach: algorithms/linfa-trees/src/decision_trees/algorithm.rs
//! module: vk_c14_predict
// @include common/prelude.rs
use super::*;
use linfa::traits::Predict;
use ndarray::{Array1, Array2};

// =================================================================================================
// C14, decided clause: predict-time routing.  "Every training sample is routed by prediction to the same leaf it
// was routed to while fitting ... only labels seen in training are ever predicted".
// Oracle (rustdoc of `DecisionTree`, "Structure" and "Algorithm", and the masks built by `fit`):
//   "all observations for which `feature <= split_value` is true fall in the left subtree, while the others fall in
//    the right subtree";  "the final prediction for the sample is the prediction of the reached leaf".
// Trees are built directly in this child module (fields of TreeNode are private), every field symbolic.
// The routing clause is split in two units per shape: strictly off the threshold (x != split on the path) and
// exactly on the threshold (the tie, which fit sends LEFT).
// =================================================================================================

fn c14_leaf<F: Float>(p: usize, depth: usize) -> TreeNode<F, usize> { TreeNode::empty_leaf(p, depth) }

fn c14_node<F: Float>(f: usize, s: F, l: TreeNode<F, usize>, r: TreeNode<F, usize>, own: usize, depth: usize) -> TreeNode<F, usize> {
    TreeNode {
        feature_idx: f, feature_name: String::new(), split_value: s, impurity_decrease: F::zero(),
        left_child: Some(Box::new(l)), right_child: Some(Box::new(r)), leaf_node: false, prediction: own, depth,
    }
}

fn c14_feat() -> usize { let f: usize = kani::any(); kani::assume(f < 2); f }

// ---- depth 1 -------------------------------------------------------------------------------------
macro_rules! c14_depth1_body {
    ($F:ty, $tie:expr) => {{
        let (f, split): (usize, $F) = (c14_feat(), kani::any());
        let x: [$F; 2] = kani::any();
        let (a, b, own): (usize, usize, usize) = (kani::any(), kani::any(), kani::any());
        kani::assume(split.is_finite() && x[0].is_finite() && x[1].is_finite());
        if $tie { kani::assume(x[f] == split); } else { kani::assume(x[f] != split); }
        let root = c14_node::<$F>(f, split, c14_leaf(a, 1), c14_leaf(b, 1), own, 0);
        let row = Array1::from(x.to_vec());
        let p = make_prediction(&row, &root);
        assert!(p == a || p == b);                                  // only labels stored in leaves
        assert!(p == if x[f] <= split { a } else { b });            // `feature <= split_value` goes left
        (f, x, split, a, b, own, p)
    }};
}

// @unit class=bounded tier=quick mem=heavy bound="depth=1, 2 features, f32, x[feature] != split" timeout=900 fns=linfa_trees::decision_trees::algorithm::make_prediction
#[kani::proof]
#[kani::unwind(5)]
#[kani::stub(alloc::fmt::format, fmt_stub)]
fn c14_predict_depth1_f32() {
    let (f, x, split, a, b, own, p) = c14_depth1_body!(f32, false);
    kani::cover!(f == 1 && x[1] < split && x[0] > split && p == a && a != b && own != a);
    kani::cover!(f == 0 && x[0] > split && x[1] < split && p == b && a != b && own != b);
}

// @unit class=bounded tier=quick mem=heavy bound="depth=1, 2 features, f32, x[feature] == split" timeout=900 fns=linfa_trees::decision_trees::algorithm::make_prediction
#[kani::proof]
#[kani::unwind(5)]
#[kani::stub(alloc::fmt::format, fmt_stub)]
fn c14_predict_tie_depth1_f32() {
    let (f, x, split, a, b, _own, p) = c14_depth1_body!(f32, true);
    kani::cover!(f == 0 && x[1] > split && a != b && p == a);
    kani::cover!(f == 1 && x[0] < split && a != b);
}

// @unit class=bounded tier=thorough mem=heavy bound="depth=1, 2 features, f64, x[feature] != split" timeout=900 fns=linfa_trees::decision_trees::algorithm::make_prediction
#[kani::proof]
#[kani::unwind(5)]
#[kani::stub(alloc::fmt::format, fmt_stub)]
fn c14_predict_depth1_f64() {
    let (f, x, split, a, b, own, p) = c14_depth1_body!(f64, false);
    kani::cover!(f == 1 && x[1] < split && x[0] > split && p == a && a != b && own != a);
    kani::cover!(f == 0 && x[0] > split && p == b && a != b);
}

// @unit class=bounded tier=thorough mem=heavy bound="depth=1, 2 features, f64, x[feature] == split" timeout=900 fns=linfa_trees::decision_trees::algorithm::make_prediction
#[kani::proof]
#[kani::unwind(5)]
#[kani::stub(alloc::fmt::format, fmt_stub)]
fn c14_predict_tie_depth1_f64() {
    let (f, x, split, a, b, _own, p) = c14_depth1_body!(f64, true);
    kani::cover!(f == 0 && x[1] > split && a != b && p == a);
}

// ---- depth 2 (complete binary tree: 3 split nodes, 4 leaves) ---------------------------------------
macro_rules! c14_depth2_body {
    ($F:ty, $tie:expr) => {{
        let fs = [c14_feat(), c14_feat(), c14_feat()];
        let ss: [$F; 3] = kani::any();
        let x: [$F; 2] = kani::any();
        let lab: [usize; 4] = kani::any();
        let own: [usize; 3] = kani::any();
        kani::assume(ss[0].is_finite() && ss[1].is_finite() && ss[2].is_finite() && x[0].is_finite() && x[1].is_finite());
        // the node visited second
        let second = if x[fs[0]] <= ss[0] { 1 } else { 2 };
        let on_threshold = x[fs[0]] == ss[0] || x[fs[second]] == ss[second];
        kani::assume(on_threshold == $tie);
        let left = c14_node::<$F>(fs[1], ss[1], c14_leaf(lab[0], 2), c14_leaf(lab[1], 2), own[1], 1);
        let right = c14_node::<$F>(fs[2], ss[2], c14_leaf(lab[2], 2), c14_leaf(lab[3], 2), own[2], 1);
        let root = c14_node::<$F>(fs[0], ss[0], left, right, own[0], 0);
        let row = Array1::from(x.to_vec());
        let p = make_prediction(&row, &root);
        let leaf = if second == 1 { if x[fs[1]] <= ss[1] { 0 } else { 1 } } else { if x[fs[2]] <= ss[2] { 2 } else { 3 } };
        assert!(p == lab[0] || p == lab[1] || p == lab[2] || p == lab[3]);
        assert!(p == lab[leaf]);
        (fs, x, ss, lab, leaf)
    }};
}

// @unit class=bounded tier=quick mem=heavy bound="depth=2 complete tree, 2 features, f32, off the thresholds" timeout=900 fns=linfa_trees::decision_trees::algorithm::make_prediction
#[kani::proof]
#[kani::unwind(5)]
#[kani::stub(alloc::fmt::format, fmt_stub)]
fn c14_predict_depth2_f32() {
    let (fs, _x, _ss, lab, leaf) = c14_depth2_body!(f32, false);
    kani::cover!(leaf == 0 && lab[0] != lab[1] && lab[0] != lab[2] && lab[0] != lab[3]);
    kani::cover!(leaf == 1 && fs[0] != fs[1]);
    kani::cover!(leaf == 2 && fs[0] == fs[2]);
    kani::cover!(leaf == 3 && lab[3] != lab[2]);
}

// @unit class=bounded tier=quick mem=heavy bound="depth=2 complete tree, 2 features, f32, on a threshold" timeout=900 fns=linfa_trees::decision_trees::algorithm::make_prediction
#[kani::proof]
#[kani::unwind(5)]
#[kani::stub(alloc::fmt::format, fmt_stub)]
fn c14_predict_tie_depth2_f32() {
    let (fs, x, ss, lab, leaf) = c14_depth2_body!(f32, true);
    kani::cover!(x[fs[0]] == ss[0] && leaf <= 1 && lab[0] != lab[2] && lab[1] != lab[2]);
    kani::cover!(x[fs[0]] > ss[0] && x[fs[2]] == ss[2] && leaf == 2 && lab[2] != lab[3]);
}

// unbalanced shape: the left child of the root is a leaf, the right child splits again
// @unit class=bounded tier=thorough mem=heavy bound="depth=2 unbalanced tree (leaf | split), 2 features, f32, any finite row incl. ties" timeout=900 fns=linfa_trees::decision_trees::algorithm::make_prediction
#[kani::proof]
#[kani::unwind(5)]
#[kani::stub(alloc::fmt::format, fmt_stub)]
fn c14_predict_unbalanced_f32() {
    let fs = [c14_feat(), c14_feat()];
    let ss: [f32; 2] = kani::any();
    let x: [f32; 2] = kani::any();
    let lab: [usize; 3] = kani::any();
    let own: [usize; 2] = kani::any();
    kani::assume(ss[0].is_finite() && ss[1].is_finite() && x[0].is_finite() && x[1].is_finite());
    let right = c14_node::<f32>(fs[1], ss[1], c14_leaf(lab[1], 2), c14_leaf(lab[2], 2), own[1], 1);
    let root = c14_node::<f32>(fs[0], ss[0], c14_leaf(lab[0], 1), right, own[0], 0);
    let p = make_prediction(&Array1::from(x.to_vec()), &root);
    let leaf = if x[fs[0]] <= ss[0] { 0 } else if x[fs[1]] <= ss[1] { 1 } else { 2 };
    assert!(p == lab[leaf]);
    kani::cover!(leaf == 0 && lab[0] != lab[1] && lab[0] != lab[2] && x[fs[1]] > ss[1]);
    kani::cover!(leaf == 1 && x[fs[1]] == ss[1] && lab[1] != lab[2]);
    kani::cover!(leaf == 2 && lab[2] != lab[1] && lab[2] != lab[0]);
}

// ---- DecisionTree::predict: row by row, each row by its own values only ------------------------------
// @unit class=bounded tier=quick mem=heavy bound="rows=2, depth=1, 2 features, f32" timeout=900 fns=linfa_trees::decision_trees::algorithm::DecisionTree::predict_inplace,linfa_trees::decision_trees::algorithm::make_prediction
#[kani::proof]
#[kani::unwind(5)]
#[kani::stub(alloc::fmt::format, fmt_stub)]
fn c14_tree_predict_rows2_depth1() {
    let (f, split): (usize, f32) = (c14_feat(), kani::any());
    let x: [[f32; 2]; 2] = kani::any();
    let (a, b): (usize, usize) = (kani::any(), kani::any());
    kani::assume(split.is_finite() && x[0][0].is_finite() && x[0][1].is_finite() && x[1][0].is_finite() && x[1][1].is_finite());
    let tree = DecisionTree { root_node: c14_node::<f32>(f, split, c14_leaf(a, 1), c14_leaf(b, 1), 0, 0), num_features: 2 };
    let xm = Array2::from_shape_vec((2, 2), vec![x[0][0], x[0][1], x[1][0], x[1][1]]).unwrap();
    let y: Array1<usize> = tree.predict(&xm);
    assert!(y.len() == 2);
    for i in 0..2 { assert!(y[i] == if x[i][f] <= split { a } else { b }); }   // a function of row i alone
    kani::cover!(y[0] == a && y[1] == b && a != b);
    kani::cover!(y[0] == b && y[1] == a && a != b && f == 1);
    kani::cover!(x[0][f] == split);
}

// ---- loop-free accessors of TreeNode (observation points of the property) --------------------------
// rustdoc: is_leaf "true if the node has no children"; prediction "`Some(prediction)` for leaf nodes and `None` for
// internal nodes"; children "both children, first left then right"; split "(feature index, value) and its impurity
// decrease"; feature_name "the feature used in the split if the node is internal, `None` otherwise".
// @unit class=bounded tier=quick mem=light bound="one split node with two leaves, all fields symbolic, f32" timeout=900 fns=linfa_trees::decision_trees::algorithm::TreeNode::is_leaf,linfa_trees::decision_trees::algorithm::TreeNode::depth,linfa_trees::decision_trees::algorithm::TreeNode::prediction,linfa_trees::decision_trees::algorithm::TreeNode::children,linfa_trees::decision_trees::algorithm::TreeNode::split,linfa_trees::decision_trees::algorithm::TreeNode::feature_name
#[kani::proof]
#[kani::unwind(5)]
#[kani::stub(alloc::fmt::format, fmt_stub)]
fn c14_node_accessors() {
    let (f, split, dec): (usize, f32, f32) = (kani::any(), kani::any(), kani::any());
    let (a, b, own, d): (usize, usize, usize, usize) = (kani::any(), kani::any(), kani::any(), kani::any());
    kani::assume(!split.is_nan() && !dec.is_nan() && d < usize::MAX);
    let mut node = c14_node::<f32>(f, split, c14_leaf(a, d + 1), c14_leaf(b, d + 1), own, d);
    node.impurity_decrease = dec;
    assert!(!node.is_leaf());
    assert!(node.depth() == d);
    assert!(node.prediction().is_none());
    assert!(node.split() == (f, split, dec));
    assert!(node.feature_name().is_some());
    let ch = node.children();
    assert!(ch.len() == 2);
    let (l, r) = (ch[0].as_ref().unwrap(), ch[1].as_ref().unwrap());
    assert!(l.is_leaf() && r.is_leaf());
    assert!(l.prediction() == Some(a) && r.prediction() == Some(b));   // first left, then right
    assert!(l.depth() == d + 1 && r.depth() == d + 1);
    assert!(l.feature_name().is_none());
    let lc = l.children();
    assert!(lc.len() == 2 && lc[0].is_none() && lc[1].is_none());       // a leaf has no children
    kani::cover!(a != b && own != a && d > 3);
}

// Tree-level observers (iter_nodes / max_depth / num_leaves / feature_importance) walk a VecDeque queue: a depth-1 tree
// did not finish in 30 min (measured) -- not decided, like everything else about fitted trees as a whole.
