//! property: C14
//! unit: V-C14-modal-class
//! tier: quick
//! fns: linfa_trees::decision_trees::algorithm::find_modal_class (the fold step over the label-frequency hash map; the result must not depend on the map's iteration order)
//@ extract STEP from algorithms/linfa-trees/src/decision_trees/algorithm.rs anchor ".fold(None, |acc, (idx, freq)| match acc {" block after "fn find_modal_class<L: Label>"
//@ rewrite STEP ".fold(None, |acc, (idx, freq)| match acc {" => "match acc {"
//@ rewrite-re? STEP "Some\(\(_best_idx, best_freq\)\)" => "Some((best_idx_unused, best_freq))"
//@ rewrite-re? STEP "(\w+) > (\w+)" => "\1.gt_abs(\2)"
//@ rewrite-re? STEP "(\w+) >= (\w+)" => "\1.ge_abs(\2)"
//@ rewrite-re? STEP "(\w+) == (\w+)" => "\1.eq_abs(\2)"
//@ rewrite-re? STEP "(\w+) < (\w+)" => "\1.lt_abs(\2)"
//@ rewrite-re? STEP "(\w+) <= (\w+)" => "\1.le_abs(\2)"
//@ copy STEP2 from STEP
//@ any-of step_ties_to_smaller_label step_ties_to_larger_label
//@ expect-fail vacuity_guard_modal
use vstd::prelude::*;
verus! {
// a label is known by its rank in the labels' total order (Label: Ord); a weight is a number that is only compared (ASSUMED not NaN)
pub struct LabelTok { pub rank: Ghost<int> }
pub struct FreqTok { pub v: Ghost<int> }
impl LabelTok {
    #[verifier::external_body] pub fn lt_abs(&self, o: &LabelTok) -> (r: bool) ensures r == (self.rank@ < o.rank@) { unimplemented!() }
    #[verifier::external_body] pub fn le_abs(&self, o: &LabelTok) -> (r: bool) ensures r == (self.rank@ <= o.rank@) { unimplemented!() }
    #[verifier::external_body] pub fn gt_abs(&self, o: &LabelTok) -> (r: bool) ensures r == (self.rank@ > o.rank@) { unimplemented!() }
    #[verifier::external_body] pub fn ge_abs(&self, o: &LabelTok) -> (r: bool) ensures r == (self.rank@ >= o.rank@) { unimplemented!() }
}
impl FreqTok {
    #[verifier::external_body] pub fn gt_abs(&self, o: &FreqTok) -> (r: bool) ensures r == (self.v@ > o.v@) { unimplemented!() }
    #[verifier::external_body] pub fn ge_abs(&self, o: &FreqTok) -> (r: bool) ensures r == (self.v@ >= o.v@) { unimplemented!() }
    #[verifier::external_body] pub fn lt_abs(&self, o: &FreqTok) -> (r: bool) ensures r == (self.v@ < o.v@) { unimplemented!() }
    #[verifier::external_body] pub fn le_abs(&self, o: &FreqTok) -> (r: bool) ensures r == (self.v@ <= o.v@) { unimplemented!() }
    #[verifier::external_body] pub fn eq_abs(&self, o: &FreqTok) -> (r: bool) ensures r == (self.v@ == o.v@) { unimplemented!() }
}
// "a beats b": more weight, or the same weight and the label that comes first in the chosen orientation (smaller label first / larger label first).
// With pairwise different labels either orientation is a strict total order on the entries of the map, so its maximum is unique - the result is a
// function of the map's CONTENT, whatever order the entries are visited in.  WHICH orientation is used is not part of C20: both are accepted (any-of).
pub open spec fn beats(small_first: bool, ra: int, fa: int, rb: int, fb: int) -> bool { fa > fb || (fa == fb && (if small_first { ra < rb } else { ra > rb })) }
pub open spec fn step_contract(small_first: bool, acc: Option<(&LabelTok, &FreqTok)>, idx: &LabelTok, freq: &FreqTok, r: Option<(&LabelTok, &FreqTok)>) -> bool {
    &&& r.is_some()
    &&& acc.is_none() ==> r.unwrap().0.rank@ == idx.rank@ && r.unwrap().1.v@ == freq.v@
    &&& acc.is_some() ==> (if beats(small_first, acc.unwrap().0.rank@, acc.unwrap().1.v@, idx.rank@, freq.v@) { r.unwrap().0.rank@ == acc.unwrap().0.rank@ && r.unwrap().1.v@ == acc.unwrap().1.v@ }
                           else { r.unwrap().0.rank@ == idx.rank@ && r.unwrap().1.v@ == freq.v@ })
}
// ---- one step of the fold, body extracted from /repo on every run, checked against both orientations (at least one must hold) ----
pub fn step_ties_to_smaller_label<'a>(acc: Option<(&'a LabelTok, &'a FreqTok)>, idx: &'a LabelTok, freq: &'a FreqTok) -> (r: Option<(&'a LabelTok, &'a FreqTok)>)
    requires acc.is_some() ==> acc.unwrap().0.rank@ != idx.rank@,          // keys of a map are pairwise different
    ensures step_contract(true, acc, idx, freq, r),
{
/*@STEP*/
}
pub fn step_ties_to_larger_label<'a>(acc: Option<(&'a LabelTok, &'a FreqTok)>, idx: &'a LabelTok, freq: &'a FreqTok) -> (r: Option<(&'a LabelTok, &'a FreqTok)>)
    requires acc.is_some() ==> acc.unwrap().0.rank@ != idx.rank@,
    ensures step_contract(false, acc, idx, freq, r),
{
/*@STEP2*/
}
#[verifier::external_body]
pub fn step_tok<'a>(small_first: Ghost<bool>, acc: Option<(&'a LabelTok, &'a FreqTok)>, idx: &'a LabelTok, freq: &'a FreqTok) -> (r: Option<(&'a LabelTok, &'a FreqTok)>)
    requires acc.is_some() ==> acc.unwrap().0.rank@ != idx.rank@,
    ensures step_contract(small_first@, acc, idx, freq, r),
{ unimplemented!() }
// ---- Iterator::fold over the map in SOME iteration order (ASSUMED meaning of fold: acc = step(acc, entry) entry by entry), for either orientation ----
pub fn fold_all(small_first: Ghost<bool>, labels: &Vec<LabelTok>, freqs: &Vec<FreqTok>) -> (r: Option<(usize, )>)
    requires labels@.len() == freqs@.len(), labels@.len() > 0,
        forall|a: int, b: int| 0 <= a < b < labels@.len() ==> labels@[a].rank@ != labels@[b].rank@,
    // C20: the winner is THE entry that beats every other one: unique, hence the same for every iteration order of the same map
    ensures r.is_some(), r.unwrap().0 < labels@.len(),
        forall|e: int| 0 <= e < labels@.len() && e != r.unwrap().0 ==> beats(small_first@, labels@[r.unwrap().0 as int].rank@, freqs@[r.unwrap().0 as int].v@, #[trigger] labels@[e].rank@, freqs@[e].v@),
{
    let mut acc: Option<(&LabelTok, &FreqTok)> = None;
    let mut win: usize = 0;
    for e in 0..labels.len()
        invariant labels@.len() == freqs@.len(), labels@.len() > 0, win < labels@.len(),
            forall|a: int, b: int| 0 <= a < b < labels@.len() ==> labels@[a].rank@ != labels@[b].rank@,
            e == 0 ==> acc.is_none(),
            e > 0 ==> acc.is_some() && win < e && acc.unwrap().0.rank@ == labels@[win as int].rank@ && acc.unwrap().1.v@ == freqs@[win as int].v@,
            forall|t: int| 0 <= t < e && t != win ==> beats(small_first@, labels@[win as int].rank@, freqs@[win as int].v@, #[trigger] labels@[t].rank@, freqs@[t].v@),
    {
        acc = step_tok(small_first, acc, &labels[e], &freqs[e]);
        if acc.unwrap().0.rank_is_abs(&labels[e]) { win = e; }
    }
    Some((win,))
}
impl LabelTok {
    #[verifier::external_body] pub fn rank_is_abs(&self, o: &LabelTok) -> (r: bool) ensures r == (self.rank@ == o.rank@) { unimplemented!() }
}
pub fn vacuity_guard_modal(small_first: Ghost<bool>, labels: &Vec<LabelTok>, freqs: &Vec<FreqTok>) -> (r: Option<(usize, )>)
    requires labels@.len() == freqs@.len(), labels@.len() > 0,
    ensures false,
{
    None
}
} // verus!
fn main() {}
