//! property: C14
//! unit: V-C14-node-assembly
//! tier: quick
//! fns: linfa_trees::decision_trees::algorithm::TreeNode::fit (early return, impurity test, child masks, recursion, node assembly), linfa_trees::decision_trees::algorithm::TreeNode::empty_leaf, linfa_trees::decision_trees::algorithm::RowMask::mark
//@ extract MARK from algorithms/linfa-trees/src/decision_trees/algorithm.rs anchor "fn mark(&mut self, idx: usize) {" body
//@ extract LEAF from algorithms/linfa-trees/src/decision_trees/algorithm.rs anchor "fn empty_leaf(prediction: L, depth: usize) -> Self {" body
//@ rewrite LEAF "TreeNode {" => "TreeNodeV {"
//@ drop LEAF from "feature_name:" through "feature_name:" as "            /* dropped field: feature_name (String) */"
//@ rewrite LEAF "split_value: F::zero()," => "split_value: FTok::zero(),"
//@ rewrite LEAF "impurity_decrease: F::zero()," => "impurity_decrease: DecTok::zero(), fitted_on: Ghost(on),"
//@ extract GUARD from algorithms/linfa-trees/src/decision_trees/algorithm.rs anchor "if (mask.nsamples as f32) < hyperparameters.min_weight_split()" block
//@ rewrite GUARD "(mask.nsamples as f32) < hyperparameters.min_weight_split()" => "hyperparameters.below_min_weight_split(mask.nsamples)"
//@ rewrite? GUARD ".map(|max_depth| depth >= max_depth)" => ".map_depth_ge(depth)   /* .map(|max_depth| depth >= max_depth) */"
//@ rewrite? GUARD ".map(|max_depth| depth > max_depth)" => ".map_depth_gt(depth)   /* .map(|max_depth| depth > max_depth) */"
//@ rewrite GUARD ".unwrap_or(false)" => ".unwrap_or_false()"
//@ rewrite GUARD "Self::empty_leaf(prediction, depth)" => "TreeNodeV::empty_leaf(prediction, depth, Ghost(in_mask(mask.mask@)))"
//@ extract ASSEMBLE from algorithms/linfa-trees/src/decision_trees/algorithm.rs anchor "let impurity_decrease = if let Some((_, _, best_score)) = best {" until "    /// Prune tree after fitting it"
//@ rewrite ASSEMBLE "parent_score - F::cast(best_score)" => "decrease_tok(parent_score, best_score)"
//@ rewrite? ASSEMBLE "F::cast(" => "f_cast(   /* F::cast: f32 -> F, value kept */"
//@ rewrite ASSEMBLE "F::zero()" => "DecTok::zero()"
//@ rewrite ASSEMBLE "impurity_decrease < hyperparameters.min_impurity_decrease()" => "impurity_decrease.below_min_decrease(hyperparameters)"
//@ rewrite ASSEMBLE "Self::empty_leaf(prediction, depth)" => "TreeNodeV::empty_leaf(prediction, depth, Ghost(in_mask(mask.mask@)))"
//@ rewrite ASSEMBLE "data.records()[(i, best_feature_idx)]" => "data.value_tok(i, best_feature_idx)"
//@ rewrite? ASSEMBLE " <= best_split_value {" => ".le_tok(best_split_value) {"
//@ rewrite? ASSEMBLE " < best_split_value {" => ".lt_tok(best_split_value) {"
//@ rewrite ASSEMBLE "TreeNode::fit(" => "fit_rec("
//@ rewrite ASSEMBLE "depth + 1," => "next_depth(depth),"
//@ rewrite ASSEMBLE "Ok(TreeNode {" => "Ok(TreeNodeV { fitted_on: Ghost(in_mask(mask.mask@)),"
//@ drop ASSEMBLE from "feature_name: sorted_indices[best_feature_idx]" through "feature_name: sorted_indices[best_feature_idx]" as "            /* dropped field: feature_name */"
//@ insert ASSEMBLE before-brace "for i in 0..data.nsamples() " : invariant mask.mask@.len() == data.n@, left_mask.wf(), right_mask.wf(), left_mask.mask@.len() == data.n@, right_mask.mask@.len() == data.n@, left_mask.nsamples <= i, right_mask.nsamples <= i, (forall|s: int| 0 <= s < data.n@ ==> #[trigger] left_mask.mask@[s] == (s < i && mask.mask@[s] && spec_value_le(s, best_feature_idx as int, best_split_value.t@))), (forall|s: int| 0 <= s < data.n@ ==> #[trigger] right_mask.mask@[s] == (s < i && mask.mask@[s] && !spec_value_le(s, best_feature_idx as int, best_split_value.t@))),
//@ insert ASSEMBLE before "// Recurse and refit on left and right subtrees" : proof { assert(in_mask(left_mask.mask@) =~= ISet::new(|s: int| in_mask(mask.mask@).contains(s) && spec_value_le(s, best_feature_idx as int, best_split_value.t@))); assert(in_mask(right_mask.mask@) =~= ISet::new(|s: int| in_mask(mask.mask@).contains(s) && !spec_value_le(s, best_feature_idx as int, best_split_value.t@))); }
//@ expect-fail vacuity_guard_node
use vstd::prelude::*;
use vstd::iset::ISet;
verus! {
// ---- tokens ----
pub enum VTerm { Val(int, int), Mid(Box<VTerm>, Box<VTerm>), Zero }
#[derive(Clone, Copy)]
pub struct FTok { pub t: Ghost<VTerm> }
impl FTok { pub fn zero() -> (r: FTok) ensures r.t@ == VTerm::Zero { FTok { t: Ghost(VTerm::Zero) } } }
pub struct LabelTok { pub l: Ghost<int> }
#[derive(Clone, Copy)]
pub struct ImpTok { pub of: Ghost<ISet<int>>, pub crit: Ghost<int> }           // impurity of a sample set under a criterion (0 = Gini, 1 = entropy)
#[derive(Clone, Copy)]
pub struct ScoreTok { pub id: Ghost<int> }
pub enum DTerm { Zero, Diff(ISet<int>, int, int) }             // parent impurity (of a sample set, under a criterion) minus the best split score
#[derive(Clone, Copy)]
pub struct DecTok { pub d: Ghost<DTerm> }
pub enum SplitQuality { Gini, Entropy }
pub struct FreqTok { pub set: Ghost<ISet<int>> }
pub struct SortedIndex { pub feature: Ghost<int> }
pub struct DataV { pub n: Ghost<int> }
pub struct ParamsV { pub q: SplitQuality, pub max_depth: Option<usize> }
#[derive(Debug)]
pub enum ErrTok { Any }

pub uninterp spec fn spec_value_le(sample: int, feature: int, thr: VTerm) -> bool;      // records[(sample, feature)] <= thr
pub uninterp spec fn spec_below_min_weight_split(nsamples: int) -> bool;
pub uninterp spec fn spec_below_min_decrease(d: DTerm) -> bool;
pub open spec fn in_mask(mask: Seq<bool>) -> ISet<int> { ISet::new(|s: int| 0 <= s < mask.len() && mask[s]) }

pub struct RowMask { pub mask: Vec<bool>, pub nsamples: usize }
impl RowMask {
    pub open spec fn wf(&self) -> bool { self.nsamples <= self.mask@.len() }
    #[verifier::external_body]
    pub fn none(nsamples: usize) -> (r: RowMask)                  // vec![false; nsamples], nsamples: 0
        ensures r.mask@.len() == nsamples, r.nsamples == 0, forall|s: int| 0 <= s < nsamples ==> !r.mask@[s],
    { unimplemented!() }
    // ---- RowMask::mark, body extracted ----
    pub fn mark(&mut self, idx: usize)
        requires idx < old(self).mask@.len(), old(self).nsamples < usize::MAX,
        ensures final(self).mask@ == old(self).mask@.update(idx as int, true), final(self).nsamples == old(self).nsamples + 1,
    {
/*@MARK*/
    }
}

pub struct TreeNodeV {
    pub feature_idx: usize, pub split_value: FTok, pub impurity_decrease: DecTok,
    pub left_child: Option<Box<TreeNodeV>>, pub right_child: Option<Box<TreeNodeV>>,
    pub leaf_node: bool, pub prediction: LabelTok, pub depth: usize,
    pub fitted_on: Ghost<ISet<int>>,                              // ghost: the training samples that reached this node
}
impl TreeNodeV {
    // ---- TreeNode::empty_leaf, body extracted ----
    pub fn empty_leaf(prediction: LabelTok, depth: usize, Ghost(on): Ghost<ISet<int>>) -> (r: TreeNodeV)
        ensures r.leaf_node, r.left_child.is_none(), r.right_child.is_none(), r.depth == depth, r.fitted_on@ == on,
    {
/*@LEAF*/
    }
}

impl ParamsV {
    pub fn split_quality(&self) -> (r: &SplitQuality) ensures *r == self.q { &self.q }
    pub fn max_depth(&self) -> (r: OptDepth) ensures r.v == self.max_depth { OptDepth { v: self.max_depth } }
    #[verifier::external_body]
    pub fn below_min_weight_split(&self, nsamples: usize) -> (r: bool) ensures r == spec_below_min_weight_split(nsamples as int) { unimplemented!() }
}
// Option<usize> with the two adapters the guard uses
pub struct OptDepth { pub v: Option<usize> }
pub struct OptBool { pub v: Option<bool> }
impl OptDepth {
    pub fn map_depth_ge(self, depth: usize) -> (r: OptBool)
        ensures r.v == (match self.v { Some(m) => Some(depth >= m), None => None::<bool> }),
    { OptBool { v: match self.v { Some(m) => Some(depth >= m), None => None } } }
}
impl OptDepth {
    pub fn map_depth_gt(self, depth: usize) -> (r: OptBool)
        ensures r.v == (match self.v { Some(m) => Some(depth > m), None => None::<bool> }),
    { OptBool { v: match self.v { Some(m) => Some(depth > m), None => None } } }
}
impl OptBool {
    pub fn unwrap_or_false(self) -> (r: bool) ensures r == (match self.v { Some(b) => b, None => false }) { match self.v { Some(b) => b, None => false } }
}
impl DecTok {
    pub fn zero() -> (r: DecTok) ensures r.d@ == DTerm::Zero { DecTok { d: Ghost(DTerm::Zero) } }
    #[verifier::external_body]
    pub fn below_min_decrease(&self, h: &ParamsV) -> (r: bool) ensures r == spec_below_min_decrease(self.d@) { unimplemented!() }
}
#[verifier::external_body]
pub fn gini_impurity(f: &FreqTok) -> (r: ImpTok) ensures r.of@ == f.set@, r.crit@ == 0 { unimplemented!() }
#[verifier::external_body]
pub fn entropy(f: &FreqTok) -> (r: ImpTok) ensures r.of@ == f.set@, r.crit@ == 1 { unimplemented!() }
pub fn f_cast<T>(x: T) -> (r: T) ensures r == x { x }
pub open spec fn crit_of(q: SplitQuality) -> int { match q { SplitQuality::Gini => 0, SplitQuality::Entropy => 1 } }
#[verifier::external_body]
pub fn decrease_tok(parent: ImpTok, best: ScoreTok) -> (r: DecTok) ensures r.d@ == DTerm::Diff(parent.of@, parent.crit@, best.id@) { unimplemented!() }
#[verifier::external_body]
pub fn next_depth(d: usize) -> (r: usize) ensures r == d + 1 { unimplemented!() }            // `depth + 1` (assumed not to overflow)
impl DataV {
    #[verifier::external_body]
    pub fn nsamples(&self) -> (r: usize) ensures r == self.n@ { unimplemented!() }
    #[verifier::external_body]
    pub fn value_tok(&self, i: usize, f: usize) -> (r: CellTok) ensures r.sample@ == i, r.feature@ == f { unimplemented!() }
}

pub struct CellTok { pub sample: Ghost<int>, pub feature: Ghost<int> }            // records[(sample, feature)]
pub uninterp spec fn spec_value_lt(sample: int, feature: int, thr: VTerm) -> bool;      // records[(sample, feature)] < thr
impl CellTok {
    #[verifier::external_body]
    pub fn le_tok(self, thr: FTok) -> (r: bool) ensures r == spec_value_le(self.sample@, self.feature@, thr.t@) { unimplemented!() }
    #[verifier::external_body]
    pub fn lt_tok(self, thr: FTok) -> (r: bool) ensures r == spec_value_lt(self.sample@, self.feature@, thr.t@) { unimplemented!() }
}
pub open spec fn depth_limit(h: &ParamsV, depth: usize) -> bool { match h.max_depth { Some(m) => depth >= m, None => false } }

// what a fitted (sub)tree rooted at `node` must satisfy locally (C14); by induction over the recursion this gives the whole tree
pub open spec fn node_ok(node: &TreeNodeV, depth: usize, on: ISet<int>, h: &ParamsV) -> bool {
    &&& node.depth == depth && node.fitted_on@ == on
    &&& depth_limit(h, depth) ==> node.leaf_node && node.left_child.is_none() && node.right_child.is_none()     // no node deeper than max_depth
    &&& !node.leaf_node ==> node.left_child.is_some() && node.right_child.is_some()                           // every split node has two children
}

// the recursive calls: assumed to satisfy the contract this unit proves for the call itself (partial correctness by induction;
// termination of the recursion is NOT proved - see findings/C14-fit-recursion.md)
#[verifier::external_body]
pub fn fit_rec(data: &DataV, mask: &RowMask, h: &ParamsV, si: &Vec<SortedIndex>, depth: usize) -> (r: Result<TreeNodeV, ErrTok>)
    requires mask.wf(), mask.mask@.len() == data.n@,
    ensures r.is_ok() ==> node_ok(&r->Ok_0, depth, in_mask(mask.mask@), h),
{ unimplemented!() }

// ---- TreeNode::fit without the candidate sweep (that part is V-C14-split-sweep): early return, impurity test, child masks, recursion, assembly ----
pub fn fit_node(data: &DataV, mask: &RowMask, hyperparameters: &ParamsV, sorted_indices: &Vec<SortedIndex>, depth: usize,
                prediction: LabelTok, parent_class_freq: &FreqTok, best: Option<(usize, FTok, ScoreTok)>) -> (r: Result<TreeNodeV, ErrTok>)
    requires mask.wf(), mask.mask@.len() == data.n@, data.n@ <= usize::MAX, parent_class_freq.set@ == in_mask(mask.mask@),
        spec_below_min_decrease(DTerm::Zero),        // min_impurity_decrease > 0: guaranteed by the parameter guard (C04), so `0 < min_impurity_decrease`
    ensures r.is_ok() ==> {
        let node = &r->Ok_0;
        &&& node_ok(node, depth, in_mask(mask.mask@), hyperparameters)
        // a split node was reached by at least min_weight_split samples, reports parent impurity minus the best score, at least min_impurity_decrease
        &&& !node.leaf_node ==> !spec_below_min_weight_split(mask.nsamples as int) && best.is_some()
              && node.feature_idx == best.unwrap().0 && node.split_value.t@ == best.unwrap().1.t@
              && node.impurity_decrease.d@ == DTerm::Diff(in_mask(mask.mask@), crit_of(hyperparameters.q), best.unwrap().2.id@)    // impurity of THIS node's samples under the CHOSEN criterion
              && !spec_below_min_decrease(node.impurity_decrease.d@)
        // children are fitted one level deeper on the two parts of this node's samples, `value <= threshold` going LEFT (ties included)
        &&& node.left_child.is_some() ==> node.left_child.unwrap().depth == depth + 1
              && node.left_child.unwrap().fitted_on@ =~= ISet::new(|s: int| in_mask(mask.mask@).contains(s) && spec_value_le(s, node.feature_idx as int, node.split_value.t@))
        &&& node.right_child.is_some() ==> node.right_child.unwrap().depth == depth + 1
              && node.right_child.unwrap().fitted_on@ =~= ISet::new(|s: int| in_mask(mask.mask@).contains(s) && !spec_value_le(s, node.feature_idx as int, node.split_value.t@))
    },
{
/*@GUARD*/
/*@ASSEMBLE*/

pub fn vacuity_guard_node(data: &DataV, mask: &RowMask, hyperparameters: &ParamsV, sorted_indices: &Vec<SortedIndex>, depth: usize,
                prediction: LabelTok, parent_class_freq: &FreqTok, best: Option<(usize, FTok, ScoreTok)>) -> (r: Result<TreeNodeV, ErrTok>)
    requires mask.wf(), mask.mask@.len() == data.n@, data.n@ <= usize::MAX, parent_class_freq.set@ == in_mask(mask.mask@),
        spec_below_min_decrease(DTerm::Zero),
    ensures false,
{
    Err(ErrTok::Any)
}
} // verus!
fn main() {}
