//! property: C14
//! unit: V-C14-importances
//! tier: quick
//! fns: linfa_trees::DecisionTree::mean_impurity_decrease, linfa_trees::DecisionTree::relative_impurity_decrease
//@ extract MEAN from algorithms/linfa-trees/src/decision_trees/algorithm.rs anchor "pub fn mean_impurity_decrease(&self) -> Vec<F> {" body
//@ rewrite MEAN "vec![F::zero(); self.num_features]" => "SumVec::zeros(self.num_features)"
//@ rewrite MEAN "vec![0; self.num_features]" => "zero_counts(self.num_features)"
//@ rewrite MEAN "for node in self.iter_nodes().filter(|node| !node.leaf_node) {" => "let split = self.iter_nodes().filter_split_abs(); for t in 0..split.len() { let node = split.at(t);   /* for node in self.iter_nodes().filter(|node| !node.leaf_node) */"
//@ rewrite MEAN "impurity_decrease[node.feature_idx] += node.impurity_decrease;" => "impurity_decrease.add_at(node.feature_idx, node.impurity_decrease);"
//@ rewrite MEAN "num_nodes[node.feature_idx] += 1;" => "num_nodes.set(node.feature_idx, num_nodes[node.feature_idx] + 1);"
//@ rewrite MEAN ".zip(num_nodes)" => ".zip_counts(num_nodes)"
//@ rewrite MEAN ".map(|(val, n)| if n == 0 { F::zero() } else { val / F::cast(n) })" => ".mean_each_abs()   /* .map(|(val, n)| if n == 0 { F::zero() } else { val / F::cast(n) }) */"
//@ rewrite MEAN ".collect()" => ".collect_tok()"
//@ insert MEAN before-brace "for t in 0..split.len() " : invariant split.v@ == split_nodes(self.nodes@), (forall|q: int| 0 <= q < split.v@.len() ==> !(#[trigger] split.v@[q]).leaf_node && self.nodes@.contains(split.v@[q])), num_nodes@.len() == self.num_features, impurity_decrease.n@ == self.num_features, impurity_decrease.terms@.len() == self.num_features, t <= split.v@.len(), (forall|f: int| 0 <= f < self.num_features ==> #[trigger] num_nodes@[f] <= t), all_features_ok(self.nodes@, self.num_features as int), (forall|f: int| 0 <= f < self.num_features ==> (#[trigger] impurity_decrease.terms@[f]) == decs_of(split.v@.subrange(0, t as int), f)), (forall|f: int| 0 <= f < self.num_features ==> #[trigger] num_nodes@[f] == decs_of(split.v@.subrange(0, t as int), f).len()),
//@ insert MEAN after "for t in 0..split.len() " : proof { lemma_decs_step(split.v@, t as int); }
//@ insert MEAN after "num_nodes.set(node.feature_idx" : proof { let ghost t1 = t as int + 1; assert forall|f: int| 0 <= f < self.num_features implies (#[trigger] impurity_decrease.terms@[f]) == decs_of(split.v@.subrange(0, t1), f) by { assert(decs_of(split.v@.subrange(0, t as int + 1), f) == (if split.v@[t as int].feature_idx == f { decs_of(split.v@.subrange(0, t as int), f).push(split.v@[t as int].impurity_decrease.id@) } else { decs_of(split.v@.subrange(0, t as int), f) })); } assert forall|f: int| 0 <= f < self.num_features implies #[trigger] num_nodes@[f] == decs_of(split.v@.subrange(0, t1), f).len() by { assert(decs_of(split.v@.subrange(0, t as int + 1), f) == (if split.v@[t as int].feature_idx == f { decs_of(split.v@.subrange(0, t as int), f).push(split.v@[t as int].impurity_decrease.id@) } else { decs_of(split.v@.subrange(0, t as int), f) })); } }
//@ extract REL from algorithms/linfa-trees/src/decision_trees/algorithm.rs anchor "pub fn relative_impurity_decrease(&self) -> Vec<F> {" body
//@ rewrite? REL ".iter().cloned().sum();" => ".sum_abs();   /* .iter().cloned().sum() */"
//@ rewrite? REL ".filter(|node| !node.leaf_node)" => ".filter_split_abs()"
//@ rewrite? REL ".map(|node| node.impurity_decrease)" => ".decreases_abs()"
//@ rewrite? REL ".sum();" => ".sum_abs();"
//@ rewrite REL ".map(|x| x / sum)" => ".div_each_abs(sum)   /* .map(|x| x / sum) */"
//@ rewrite REL ".collect()" => ".collect_tok()"
//@ expect-fail vacuity_guard_importance
use vstd::prelude::*;
verus! {
// ---- tokens ----
#[derive(Clone, Copy)]
pub struct DecTok { pub id: Ghost<int> }                                    // the impurity decrease stored in node `id`
pub struct NodeV { pub leaf_node: bool, pub feature_idx: usize, pub impurity_decrease: DecTok }
pub uninterp spec fn split_nodes(nodes: Seq<NodeV>) -> Seq<NodeV>;          // the non-leaf nodes in iteration order (Iterator::filter)
pub open spec fn all_features_ok(nodes: Seq<NodeV>, p: int) -> bool { forall|n: NodeV| #[trigger] nodes.contains(n) && !n.leaf_node ==> n.feature_idx < p }
// the decreases of the split nodes (in tree order) that split on feature f
pub open spec fn decs_of(split: Seq<NodeV>, f: int) -> Seq<int> decreases split.len() {
    if split.len() == 0 { Seq::empty() } else if split.last().feature_idx == f { decs_of(split.drop_last(), f).push(split.last().impurity_decrease.id@) } else { decs_of(split.drop_last(), f) }
}
// the decreases of ALL split nodes on feature f (the whole list written as its full prefix, which is what the loop invariant ends with)
pub open spec fn all_decs(nodes: Seq<NodeV>, f: int) -> Seq<int> { decs_of(split_nodes(nodes).subrange(0, split_nodes(nodes).len() as int), f) }
proof fn lemma_decs_step(split: Seq<NodeV>, t: int)
    requires 0 <= t < split.len(),
    ensures forall|f: int| #![trigger decs_of(split.subrange(0, t + 1), f)] decs_of(split.subrange(0, t + 1), f) == (if split[t].feature_idx == f { decs_of(split.subrange(0, t), f).push(split[t].impurity_decrease.id@) } else { decs_of(split.subrange(0, t), f) }),
{
    assert(split.subrange(0, t + 1).drop_last() =~= split.subrange(0, t));
    assert(split.subrange(0, t + 1).last() == split[t]);
}
pub struct NodesIter { pub nodes: Ghost<Seq<NodeV>> }
impl NodesIter {
    #[verifier::external_body] pub fn filter_split_abs(self) -> (r: SplitVec) ensures r.v@ == split_nodes(self.nodes@), forall|t: int| 0 <= t < r.v@.len() ==> !(#[trigger] r.v@[t]).leaf_node && self.nodes@.contains(r.v@[t]) { unimplemented!() }     // .filter(|node| !node.leaf_node), collected
}
pub struct DecIter { pub of: Ghost<Seq<NodeV>> }
pub struct SplitVec { pub v: Vec<NodeV> }
impl SplitVec {
    pub fn len(&self) -> (r: usize) ensures r == self.v@.len() { self.v.len() }
    pub fn at(&self, t: usize) -> (r: &NodeV) requires t < self.v@.len(), ensures *r == self.v@[t as int] { &self.v[t] }
    #[verifier::external_body] pub fn decreases_abs(self) -> (r: DecIter) ensures r.of@ == self.v@ { unimplemented!() }      // .map(|node| node.impurity_decrease)
}
// per-feature accumulators of impurity decreases: which node decreases have been added to which entry
pub struct SumVec { pub n: Ghost<int>, pub terms: Ghost<Seq<Seq<int>>> }
impl SumVec {
    #[verifier::external_body] pub fn zeros(n: usize) -> (r: SumVec) ensures r.n@ == n, r.terms@.len() == n, forall|f: int| 0 <= f < n ==> (#[trigger] r.terms@[f]) == Seq::<int>::empty() { unimplemented!() }
    #[verifier::external_body]
    pub fn add_at(&mut self, f: usize, d: DecTok)
        requires f < old(self).n@, old(self).terms@.len() == old(self).n@,
        ensures final(self).n@ == old(self).n@, final(self).terms@ == old(self).terms@.update(f as int, old(self).terms@[f as int].push(d.id@)),
    { unimplemented!() }
    #[verifier::external_body] pub fn into_iter(self) -> (r: SumVec) ensures r.n@ == self.n@, r.terms@ == self.terms@ { unimplemented!() }
    #[verifier::external_body] pub fn zip_counts(self, c: Vec<usize>) -> (r: MeanIter) ensures r.terms@ == self.terms@, r.counts@ == c@ { unimplemented!() }
}
#[verifier::external_body]
pub fn zero_counts(n: usize) -> (r: Vec<usize>) ensures r@.len() == n, forall|f: int| 0 <= f < n ==> #[trigger] r@[f] == 0 { unimplemented!() }
pub struct MeanIter { pub terms: Ghost<Seq<Seq<int>>>, pub counts: Ghost<Seq<usize>> }
// entry f of the mean vector: Zero when nothing was added, otherwise (sum of `terms[f]`) / counts[f]
pub struct MeanVec { pub terms: Ghost<Seq<Seq<int>>>, pub counts: Ghost<Seq<usize>>, pub divided_by: Ghost<Option<Seq<Seq<int>>>> }
impl MeanIter {
    #[verifier::external_body] pub fn mean_each_abs(self) -> (r: MeanIter) ensures r.terms@ == self.terms@, r.counts@ == self.counts@ { unimplemented!() }
    #[verifier::external_body] pub fn collect_tok(self) -> (r: MeanVec) ensures r.terms@ == self.terms@, r.counts@ == self.counts@, r.divided_by@ is None { unimplemented!() }
}
pub struct SumTok { pub of: Ghost<Seq<Seq<int>>> }                            // the sum of the entries of the mean vector with these terms
impl MeanVec {
    #[verifier::external_body] pub fn sum_abs(&self) -> (r: SumTok) ensures r.of@ == self.terms@ { unimplemented!() }
    #[verifier::external_body] pub fn into_iter(self) -> (r: MeanVec) ensures r.terms@ == self.terms@, r.counts@ == self.counts@, r.divided_by@ == self.divided_by@ { unimplemented!() }
    #[verifier::external_body] pub fn div_each_abs(self, s: SumTok) -> (r: MeanVec) requires self.divided_by@ is None, ensures r.terms@ == self.terms@, r.counts@ == self.counts@, r.divided_by@ == Some(s.of@) { unimplemented!() }
    #[verifier::external_body] pub fn collect_tok(self) -> (r: MeanVec) ensures r.terms@ == self.terms@, r.counts@ == self.counts@, r.divided_by@ == self.divided_by@ { unimplemented!() }
}
impl DecIter {
    #[verifier::external_body] pub fn sum_abs(self) -> (r: SumTok) ensures r.of@ == seq![Seq::new(self.of@.len(), |i: int| self.of@[i].impurity_decrease.id@)] { unimplemented!() }   // one sum over all these nodes
}
pub struct SplitIter { pub of: Ghost<Seq<NodeV>> }
impl SplitIter { #[verifier::external_body] pub fn decreases_abs(self) -> (r: DecIter) ensures r.of@ == self.of@ { unimplemented!() } }
pub struct TreeV { pub nodes: Ghost<Seq<NodeV>>, pub num_features: usize }
impl TreeV {
    #[verifier::external_body] pub fn iter_nodes(&self) -> (r: NodesIter) ensures r.nodes@ == self.nodes@ { unimplemented!() }

    // ---- mean_impurity_decrease, body extracted from /repo on every run ----
    // entry f: the decreases of exactly the split nodes that split on feature f, each once, and their number
    pub fn mean_impurity_decrease(&self) -> (r: MeanVec)
        requires all_features_ok(self.nodes@, self.num_features as int),          // fit only stores feature indices below num_features (V-C14-split-sweep)
        ensures r.terms@.len() == self.num_features, r.counts@.len() == self.num_features, r.divided_by@ is None,
            forall|f: int| 0 <= f < self.num_features ==> (#[trigger] r.terms@[f]) == all_decs(self.nodes@, f) && r.counts@[f] == r.terms@[f].len(),
    {
/*@MEAN*/
    }

    // ---- relative_impurity_decrease (= feature_importance), body extracted from /repo on every run ----
    // C14 "feature importances ... sum to one whenever the tree has a split": every entry of the mean vector divided by the sum of that SAME vector
    pub fn relative_impurity_decrease(&self) -> (r: MeanVec)
        requires all_features_ok(self.nodes@, self.num_features as int),
        ensures r.terms@.len() == self.num_features, r.divided_by@ == Some(r.terms@),
            forall|f: int| 0 <= f < self.num_features ==> (#[trigger] r.terms@[f]) == all_decs(self.nodes@, f) && r.counts@[f] == r.terms@[f].len(),
    {
/*@REL*/
    }
    pub fn vacuity_guard_importance(&self) -> (r: MeanVec)
        requires all_features_ok(self.nodes@, self.num_features as int),
        ensures false,
    {
        self.mean_impurity_decrease()
    }
}
} // verus!
fn main() {}
