//! property: C14
//! unit: V-C14-predict
//! tier: quick
//! fns: linfa_trees::decision_trees::algorithm::make_prediction
//! pair: c14_predict_depth1_f32
//@ extract STRUCT from algorithms/linfa-trees/src/decision_trees/algorithm.rs anchor "pub struct TreeNode<F, L> {" body
//@ rewrite STRUCT "Option<Box<TreeNode<F, L>>>" => "Option<Box<TreeNodeV>>"
//@ rewrite STRUCT "split_value: F," => "split_value: f64,"
//@ rewrite STRUCT "impurity_decrease: F," => "impurity_decrease: f64,"
//@ rewrite STRUCT "prediction: L," => "prediction: usize,"
//@ drop STRUCT from "feature_name: String," through "feature_name: String," as "    /* dropped field: feature_name (String; not read by make_prediction) */"
//@ extract PRED from algorithms/linfa-trees/src/decision_trees/algorithm.rs anchor "fn make_prediction<F: Float, L: Label>(" body
//@ expect-fail vacuity_guard_predict
use vstd::prelude::*;
verus! {
// C14, unbounded in the depth of the tree: on every well-formed tree ("every split node has two children", split
// feature inside the row) the descent of `make_prediction` terminates, never panics (index, unwrap) and returns a label
// that is stored in one of the tree's leaves -- "only labels seen in training are ever predicted" given that leaves
// store training labels.  Which side a row takes is decided by the bounded Kani units (float comparison is
// uninterpreted in Verus).
// Instantiation F = f64, L = usize (both real instantiations of the generic code); the ndarray row `x` is replaced by
// `&Vec<f64>` in the signature (the body only indexes it).

// ---- struct TreeNode: field list extracted from /repo on every run ----
struct TreeNodeV {
/*@STRUCT*/
}

spec fn wf(n: TreeNodeV, nfeat: int) -> bool
    decreases n,
{
    n.leaf_node || (
        n.feature_idx < nfeat
        && n.left_child is Some && n.right_child is Some
        && wf(*n.left_child->0, nfeat) && wf(*n.right_child->0, nfeat))
}

spec fn leaf_labels(n: TreeNodeV) -> Set<usize>
    decreases n,
{
    if n.leaf_node {
        set![n.prediction]
    } else if n.left_child is Some && n.right_child is Some {
        leaf_labels(*n.left_child->0).union(leaf_labels(*n.right_child->0))
    } else {
        Set::empty()
    }
}

// ---- make_prediction: body extracted from /repo on every run ----
fn make_prediction(x: &Vec<f64>, node: &TreeNodeV) -> (r: usize)
    requires wf(*node, x@.len() as int),
    ensures leaf_labels(*node).contains(r),
    decreases *node,
{
/*@PRED*/
}

fn vacuity_guard_predict(x: &Vec<f64>, node: &TreeNodeV) -> (r: usize)
    requires wf(*node, x@.len() as int),
    ensures false,
{
    0
}
} // verus!
fn main() {}
