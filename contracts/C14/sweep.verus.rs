//! property: C14
//! unit: V-C14-split-sweep
//! tier: quick
//! fns: linfa_trees::decision_trees::algorithm::TreeNode::fit (the sweep over features and sorted values that proposes split candidates)
//@ extract PRE from algorithms/linfa-trees/src/decision_trees/algorithm.rs anchor "let mut best = None;" until "for (feature_idx, sorted_index) in sorted_indices.iter().enumerate() {"
//@ rewrite PRE "let mut best = None;" => "let mut best: Option<(usize, FTok, ScoreTok)> = None;"
//@ rewrite? PRE "mask.nsamples as f32" => "count_as_weight(mask.nsamples)"
//@ rewrite? PRE "parent_class_freq.values().sum::<f32>()" => "parent_class_freq.total_weight()"
//@ extract SWEEP from algorithms/linfa-trees/src/decision_trees/algorithm.rs anchor "for (feature_idx, sorted_index) in sorted_indices.iter().enumerate() {" block
//@ rewrite SWEEP "for (feature_idx, sorted_index) in sorted_indices.iter().enumerate() {" => "for feature_idx in 0..sorted_indices.len() { let sorted_index = &sorted_indices[feature_idx];   /* iter().enumerate() as an index loop */"
//@ rewrite SWEEP "HashMap::new()" => "FreqTok::empty()"
//@ rewrite? SWEEP "parent_class_freq.values().sum::<f32>()" => "parent_class_freq.total_weight()"
//@ rewrite? SWEEP "mask.nsamples as f32" => "count_as_weight(mask.nsamples)"
//@ rewrite SWEEP "let mut weight_on_left_side = 0.0;" => "let mut weight_on_left_side = SumTok::zero();"
//@ rewrite SWEEP "let sample_class = &target[presorted_index];" => "let sample_class = &target[presorted_index];"
//@ rewrite SWEEP "*right_class_freq.get_mut(sample_class).unwrap() -= sample_weight;" => "right_class_freq.sub_weight(sample_class, sample_weight);"
//@ rewrite SWEEP "weight_on_right_side -= sample_weight;" => "weight_on_right_side = weight_on_right_side.minus(sample_weight);"
//@ rewrite SWEEP "*left_class_freq.entry(sample_class.clone()).or_insert(0.0) += sample_weight;" => "left_class_freq.add_weight(sample_class, sample_weight);"
//@ rewrite SWEEP "weight_on_left_side += sample_weight;" => "weight_on_left_side = weight_on_left_side.plus(sample_weight);"
//@ drop SWEEP from "if (sorted_index.sorted_values[i].1 - sorted_index.sorted_values[i + 1].1).abs()" through "< F::cast(1e-5)" as "                if close_tok(sorted_index.sorted_values[i].1, sorted_index.sorted_values[i + 1].1)   /* |v_i - v_{i+1}| < 1e-5 */"
//@ rewrite? SWEEP "weight_on_right_side < hyperparameters.min_weight_leaf()" => "weight_on_right_side.below_min_leaf(hyperparameters)"
//@ rewrite? SWEEP "weight_on_left_side < hyperparameters.min_weight_leaf()" => "weight_on_left_side.below_min_leaf(hyperparameters)"
//@ rewrite SWEEP "weight_on_right_side / total_weight" => "weight_on_right_side.div_tok(total_weight)"
//@ rewrite SWEEP "w * left_score + (1.0 - w) * right_score" => "combine_tok(w, left_score, right_score)"
//@ rewrite SWEEP "(split_value + sorted_index.sorted_values[i + 1].1) / F::cast(2.0)" => "midpoint_tok(split_value, sorted_index.sorted_values[i + 1].1)"
//@ rewrite SWEEP "Some((_, _, best_score)) if score < best_score => {" => "Some((_, _, best_score)) if score.lt_tok(&best_score) => {"
//@ rewrite SWEEP "best.take()" => "opt_take(&mut best)"
//@ insert SWEEP before-brace "for feature_idx in 0..sorted_indices.len() " : invariant wf(mask, target, sorted_indices), parent_class_freq.set@ == in_mask(mask.mask@), best.is_some() ==> valid_candidate(best.unwrap(), mask.mask@, sorted_indices@),
//@ rewrite SWEEP "for i in 0..mask.mask.len() - 1 {" => "proof { lemma_moved_left_zero(mask.mask@, sorted_index.sorted_values@); } let mut i_next: usize = 0; while i_next < mask.mask.len() - 1 /*INV*/ { let i = i_next; i_next += 1;   /* `for i in 0..len-1` as a while loop (Verus: no `continue` in for-loops) */"
//@ rewrite SWEEP "/*INV*/" => "invariant wf(mask, target, sorted_indices), feature_idx < sorted_indices.len(), sorted_index == &sorted_indices[feature_idx as int], parent_class_freq.set@ == in_mask(mask.mask@), total_weight.w@ == WSum::Samples(in_mask(mask.mask@)), left_class_freq.set@ == moved_left(mask.mask@, sorted_index.sorted_values@, i_next as int), right_class_freq.set@ == in_mask(mask.mask@).difference(moved_left(mask.mask@, sorted_index.sorted_values@, i_next as int)), weight_on_left_side.w@ == WSum::Samples(left_class_freq.set@), weight_on_right_side.w@ == WSum::Samples(right_class_freq.set@), best.is_some() ==> valid_candidate(best.unwrap(), mask.mask@, sorted_indices@), decreases mask.mask@.len() - i_next,"
//@ insert SWEEP after "let (presorted_index, mut split_value) = sorted_index.sorted_values[i];" : proof { lemma_moved_left_step(mask.mask@, sorted_index.sorted_values@, i as int); }
//@ insert SWEEP before "best = match " : proof { assert(cand_at((feature_idx, split_value, score), mask.mask@, sorted_indices@, feature_idx as int, i as int)); }
//@ expect-fail vacuity_guard_sweep
use vstd::prelude::*;
use vstd::iset::ISet;
verus! {
// ---- tokens ----
pub enum VTerm { Val(int, int), Mid(Box<VTerm>, Box<VTerm>) }   // a feature value (feature, sorted position) or the midpoint of two values
#[derive(Clone, Copy)]
pub struct FTok { pub t: Ghost<VTerm> }
pub struct LabelTok { pub l: Ghost<int> }
#[derive(Clone, Copy)]
pub struct WTok { pub sample: Ghost<int> }                    // weight of one sample
pub enum WSum { Samples(ISet<int>), Count(int) }               // a sum of sample weights, or a sample COUNT used as a weight
#[derive(Clone, Copy)]
pub struct SumTok { pub w: Ghost<WSum> }
pub struct FreqTok { pub set: Ghost<ISet<int>> }               // class-frequency table of a set of samples
#[derive(Clone, Copy)]
pub struct ImpTok { pub of: Ghost<ISet<int>>, pub gini: Ghost<bool> }    // impurity (gini / entropy) of a set of samples
#[derive(Clone, Copy)]
pub struct RatioTok { pub num: Ghost<WSum>, pub den: Ghost<WSum> }
#[derive(Clone, Copy)]
pub struct ScoreTok { pub w: Ghost<RatioTok>, pub a: Ghost<ImpTok>, pub b: Ghost<ImpTok> }
pub enum SplitQuality { Gini, Entropy }
pub struct SortedIndex { pub sorted_values: Vec<(usize, FTok)> }
pub struct RowMask { pub mask: Vec<bool>, pub nsamples: usize }
pub struct ParamsV { pub q: SplitQuality }
pub struct DataV;

pub uninterp spec fn spec_close(a: VTerm, b: VTerm) -> bool;
pub uninterp spec fn spec_below_min_leaf(w: WSum) -> bool;
pub uninterp spec fn spec_score_lt(a: ScoreTok, b: ScoreTok) -> bool;

pub open spec fn in_mask(mask: Seq<bool>) -> ISet<int> { ISet::new(|s: int| 0 <= s < mask.len() && mask[s]) }
// samples of the node that sit at sorted positions < upto of a feature: "moved to the left side so far"
pub open spec fn moved_left(mask: Seq<bool>, sv: Seq<(usize, FTok)>, upto: int) -> ISet<int> {
    ISet::new(|s: int| exists|p: int| 0 <= p < upto && p < sv.len() && #[trigger] sv[p].0 == s && 0 <= s < mask.len() && mask[s])
}
pub open spec fn wf(mask: &RowMask, target: &Vec<LabelTok>, si: &Vec<SortedIndex>) -> bool {
    mask.mask@.len() >= 1 && target@.len() == mask.mask@.len()
    && forall|f: int| 0 <= f < si@.len() ==> (#[trigger] si@[f]).sorted_values@.len() == mask.mask@.len()
        && (forall|p: int| 0 <= p < mask.mask@.len() ==> (#[trigger] si@[f].sorted_values@[p]).0 < mask.mask@.len() && si@[f].sorted_values@[p].1.t@ == VTerm::Val(f, p))
        && distinct_samples(si@[f].sorted_values@)
}
// every sample occurs once in a feature's sorted order
pub open spec fn distinct_samples(sv: Seq<(usize, FTok)>) -> bool {
    forall|p: int, q: int| 0 <= p < sv.len() && 0 <= q < sv.len() && p != q ==> (#[trigger] sv[p]).0 != (#[trigger] sv[q]).0
}
proof fn lemma_moved_left_zero(mask: Seq<bool>, sv: Seq<(usize, FTok)>)
    ensures moved_left(mask, sv, 0) =~= ISet::<int>::empty(), in_mask(mask).difference(moved_left(mask, sv, 0)) =~= in_mask(mask),
{
}
proof fn lemma_moved_left_step(mask: Seq<bool>, sv: Seq<(usize, FTok)>, i: int)
    requires 0 <= i < sv.len(), sv.len() == mask.len(), distinct_samples(sv), forall|p: int| 0 <= p < sv.len() ==> (#[trigger] sv[p]).0 < mask.len(),
    ensures
        !mask[sv[i].0 as int] ==> moved_left(mask, sv, i + 1) =~= moved_left(mask, sv, i),
        mask[sv[i].0 as int] ==> moved_left(mask, sv, i + 1) =~= moved_left(mask, sv, i).insert(sv[i].0 as int)
            && !moved_left(mask, sv, i).contains(sv[i].0 as int) && in_mask(mask).contains(sv[i].0 as int)
            && in_mask(mask).difference(moved_left(mask, sv, i + 1)) =~= in_mask(mask).difference(moved_left(mask, sv, i)).remove(sv[i].0 as int),
{
    let a = moved_left(mask, sv, i);
    let b = moved_left(mask, sv, i + 1);
    let s = sv[i].0 as int;
    assert forall|x: int| a.contains(x) implies b.contains(x) by {
        let p = choose|p: int| 0 <= p < i && p < sv.len() && #[trigger] sv[p].0 == x && 0 <= x < mask.len() && mask[x];
        assert(0 <= p < i + 1 && sv[p].0 == x);
    }
    assert forall|x: int| b.contains(x) implies a.contains(x) || (x == s && mask[s]) by {
        let p = choose|p: int| 0 <= p < i + 1 && p < sv.len() && #[trigger] sv[p].0 == x && 0 <= x < mask.len() && mask[x];
        if p < i { assert(sv[p].0 == x); } else { assert(p == i); }
    }
    if mask[s] {
        assert(sv[i].0 == s);
        assert(b.contains(s));
        if a.contains(s) {
            let p = choose|p: int| 0 <= p < i && p < sv.len() && #[trigger] sv[p].0 == s && 0 <= s < mask.len() && mask[s];
            assert(sv[p].0 == sv[i].0 && p != i);
        }
    }
}
// C14: a proposed split (feature f, threshold, score) comes from a position i of feature f's sorted order where the next value differs,
// the threshold lies between values i and i+1 (the code takes the midpoint), BOTH sides keep at least min_weight_leaf of the node's training weight, and the score
// is the impurity of the two sides weighted by their share of the node's total training WEIGHT
pub open spec fn cand_at(c: (usize, FTok, ScoreTok), mask: Seq<bool>, si: Seq<SortedIndex>, f: int, i: int) -> bool {
    let left = moved_left(mask, si[f].sorted_values@, i + 1);
    let right = in_mask(mask).difference(left);
    &&& 0 <= i < mask.len() - 1
    // the threshold separates value i (left, `<=`) from value i+1 (right): the midpoint the code takes, or value i itself (any t with
    // v_i <= t < v_{i+1} routes the training samples identically; value i+1 would not)
    &&& (c.1.t@ == VTerm::Mid(Box::new(VTerm::Val(f, i)), Box::new(VTerm::Val(f, i + 1))) || c.1.t@ == VTerm::Val(f, i))
    &&& !spec_close(VTerm::Val(f, i), VTerm::Val(f, i + 1))
    &&& !spec_below_min_leaf(WSum::Samples(right)) && !spec_below_min_leaf(WSum::Samples(left))
    &&& c.2.w@.num@ == WSum::Samples(right) && c.2.w@.den@ == WSum::Samples(in_mask(mask))
    &&& c.2.a@.of@ == right && c.2.b@.of@ == left
}
pub open spec fn valid_candidate(c: (usize, FTok, ScoreTok), mask: Seq<bool>, si: Seq<SortedIndex>) -> bool {
    let f = c.0 as int;
    0 <= f < si.len() && exists|i: int| #[trigger] cand_at(c, mask, si, f, i)
}

impl SumTok {
    pub fn zero() -> (r: SumTok) ensures r.w@ == WSum::Samples(ISet::<int>::empty()) { SumTok { w: Ghost(WSum::Samples(ISet::empty())) } }
    #[verifier::external_body]
    pub fn minus(self, x: WTok) -> (r: SumTok)
        ensures self.w@ is Samples ==> r.w@ == WSum::Samples(self.w@->Samples_0.remove(x.sample@)),
                self.w@ is Count ==> r.w@ == self.w@,
    { unimplemented!() }
    #[verifier::external_body]
    pub fn plus(self, x: WTok) -> (r: SumTok)
        ensures self.w@ is Samples ==> r.w@ == WSum::Samples(self.w@->Samples_0.insert(x.sample@)),
                self.w@ is Count ==> r.w@ == self.w@,
    { unimplemented!() }
    #[verifier::external_body]
    pub fn below_min_leaf(self, h: &ParamsV) -> (r: bool) ensures r == spec_below_min_leaf(self.w@) { unimplemented!() }
    #[verifier::external_body]
    pub fn div_tok(self, d: SumTok) -> (r: RatioTok) ensures r.num@ == self.w@, r.den@ == d.w@ { unimplemented!() }
}
#[verifier::external_body]
pub fn count_as_weight(n: usize) -> (r: SumTok) ensures r.w@ == WSum::Count(n as int) { unimplemented!() }
impl FreqTok {
    pub fn empty() -> (r: FreqTok) ensures r.set@ == ISet::<int>::empty() { FreqTok { set: Ghost(ISet::empty()) } }
    #[verifier::external_body]
    pub fn clone(&self) -> (r: FreqTok) ensures r.set@ == self.set@ { unimplemented!() }
    #[verifier::external_body]
    pub fn total_weight(&self) -> (r: SumTok) ensures r.w@ == WSum::Samples(self.set@) { unimplemented!() }
    #[verifier::external_body]
    pub fn sub_weight(&mut self, class: &LabelTok, x: WTok)
        requires old(self).set@.contains(x.sample@),            // `get_mut(class).unwrap()` panics for a class that is not in the table
        ensures final(self).set@ == old(self).set@.remove(x.sample@),
    { unimplemented!() }
    #[verifier::external_body]
    pub fn add_weight(&mut self, class: &LabelTok, x: WTok) ensures final(self).set@ == old(self).set@.insert(x.sample@) { unimplemented!() }
}
#[verifier::external_body]
pub fn gini_impurity(f: &FreqTok) -> (r: ImpTok) ensures r.of@ == f.set@, r.gini@ { unimplemented!() }
#[verifier::external_body]
pub fn entropy(f: &FreqTok) -> (r: ImpTok) ensures r.of@ == f.set@, !r.gini@ { unimplemented!() }
#[verifier::external_body]
pub fn close_tok(a: FTok, b: FTok) -> (r: bool) ensures r == spec_close(a.t@, b.t@) { unimplemented!() }
#[verifier::external_body]
pub fn combine_tok(w: RatioTok, a: ImpTok, b: ImpTok) -> (r: ScoreTok) ensures r.w@ == w, r.a@ == a, r.b@ == b { unimplemented!() }
#[verifier::external_body]
pub fn midpoint_tok(a: FTok, b: FTok) -> (r: FTok) ensures r.t@ == VTerm::Mid(Box::new(a.t@), Box::new(b.t@)) { unimplemented!() }
impl ScoreTok {
    #[verifier::external_body]
    pub fn lt_tok(&self, o: &ScoreTok) -> (r: bool) ensures r == spec_score_lt(*self, *o) { unimplemented!() }
}
pub fn opt_take<T>(o: &mut Option<T>) -> (r: Option<T>) ensures r == *old(o), *final(o) == None::<T> {
    let mut t = None; core::mem::swap(o, &mut t); t
}
impl DataV {
    #[verifier::external_body]
    pub fn weight_for(&self, i: usize) -> (r: WTok) ensures r.sample@ == i { unimplemented!() }
}
impl ParamsV {
    pub fn split_quality(&self) -> (r: &SplitQuality) ensures *r == self.q { &self.q }
}

// ---- TreeNode::fit: the candidate sweep, extracted from /repo on every run ----
pub fn sweep(data: &DataV, mask: &RowMask, target: &Vec<LabelTok>, hyperparameters: &ParamsV, sorted_indices: &Vec<SortedIndex>, parent_class_freq: &FreqTok)
    -> (best: Option<(usize, FTok, ScoreTok)>)
    requires wf(mask, target, sorted_indices), parent_class_freq.set@ == in_mask(mask.mask@),
    ensures best.is_some() ==> valid_candidate(best.unwrap(), mask.mask@, sorted_indices@),
{
/*@PRE*/
/*@SWEEP*/
    best
}

pub fn vacuity_guard_sweep(data: &DataV, mask: &RowMask, target: &Vec<LabelTok>, hyperparameters: &ParamsV, sorted_indices: &Vec<SortedIndex>, parent_class_freq: &FreqTok)
    -> (best: Option<(usize, FTok, ScoreTok)>)
    requires wf(mask, target, sorted_indices), parent_class_freq.set@ == in_mask(mask.mask@),
    ensures false,
{
    None
}
} // verus!
fn main() {}
