//! property: C10
//! unit: V-C10-log-sum-exp
//! tier: quick
//! fns: linfa_clustering::gaussian_mixture::algorithm::GaussianMixtureModel::estimate_log_prob_resp (the normaliser is a log-sum-exp with the row maximum taken out; responsibilities = weighted log probabilities minus that normaliser)
//@ extract LSE from algorithms/linfa-clustering/src/gaussian_mixture/algorithm.rs anchor "fn estimate_log_prob_resp<D: Data<Elem = F>>(" body
//@ drop? LSE from "let row_max = weighted_log_prob.map_axis(Axis(1), |row| {" through "});" as "        let row_max = weighted_log_prob.row_max_abs();   /* map_axis(Axis(1), |row| row.fold(-inf, |acc, &x| if x > acc { x } else { acc })) */"
//@ rewrite-re? LSE "\(&weighted_log_prob - &(\w+)\.view\(\)\.insert_axis\(Axis\(1\)\)\)" => "weighted_log_prob.sub_col_abs(&\1)"
//@ rewrite LSE ".mapv(|x| x.exp())" => ".exp_abs()   /* .mapv(|x| x.exp()) */"
//@ rewrite LSE ".sum_axis(Axis(1))" => ".sum_rows_abs()   /* .sum_axis(Axis(1)) */"
//@ rewrite LSE ".mapv(|x| x.ln())" => ".ln_abs()   /* .mapv(|x| x.ln()) */"
//@ rewrite-re? LSE "\+ &(\w+);" => ".add_vec_abs(&\1);"
//@ rewrite LSE "weighted_log_prob - log_prob_norm.to_owned().insert_axis(Axis(1))" => "weighted_log_prob.sub_col_abs(&log_prob_norm)"
//@ expect-fail vacuity_guard_lse
use vstd::prelude::*;
verus! {
pub enum E { W, RowMax(Box<E>), SubCol(Box<E>, Box<E>), Exp(Box<E>), SumRows(Box<E>), Ln(Box<E>), AddVec(Box<E>, Box<E>) }
pub struct MatTok { pub e: Ghost<E> }
pub struct VecTok { pub e: Ghost<E> }
// ASSUMED of ndarray: element-wise maps, row sums, broadcasting a column vector over the columns
impl MatTok {
    #[verifier::external_body] pub fn row_max_abs(&self) -> (r: VecTok) ensures r.e@ == E::RowMax(Box::new(self.e@)) { unimplemented!() }
    #[verifier::external_body] pub fn sub_col_abs(&self, v: &VecTok) -> (r: MatTok) ensures r.e@ == E::SubCol(Box::new(self.e@), Box::new(v.e@)) { unimplemented!() }
    #[verifier::external_body] pub fn exp_abs(&self) -> (r: MatTok) ensures r.e@ == E::Exp(Box::new(self.e@)) { unimplemented!() }
    #[verifier::external_body] pub fn sum_rows_abs(&self) -> (r: VecTok) ensures r.e@ == E::SumRows(Box::new(self.e@)) { unimplemented!() }
}
impl VecTok {
    #[verifier::external_body] pub fn ln_abs(&self) -> (r: VecTok) ensures r.e@ == E::Ln(Box::new(self.e@)) { unimplemented!() }
    #[verifier::external_body] pub fn add_vec_abs(&self, v: &VecTok) -> (r: VecTok) ensures r.e@ == E::AddVec(Box::new(self.e@), Box::new(v.e@)) { unimplemented!() }
}
pub struct ObsTok;
// log P(x) as a numerically safe log-sum-exp: m_i + ln(sum_j exp(w_ij - m_i)) with m_i the row maximum - every exponent is <= 0 and one of them is 0,
// so the sum lies in [1, k] and its logarithm is finite whenever the weighted log probabilities are (C10: "finite ... arbitrarily far from it")
pub open spec fn safe_lse() -> E {
    E::AddVec(Box::new(E::Ln(Box::new(E::SumRows(Box::new(E::Exp(Box::new(E::SubCol(Box::new(E::W), Box::new(E::RowMax(Box::new(E::W))))))))))), Box::new(E::RowMax(Box::new(E::W))))
}
pub struct ModelV;
impl ModelV {
    #[verifier::external_body] pub fn estimate_weighted_log_prob(&self, o: &ObsTok) -> (r: MatTok) ensures r.e@ == E::W { unimplemented!() }
    pub fn estimate_log_prob_resp(&self, observations: &ObsTok) -> (r: (VecTok, MatTok))
        ensures r.0.e@ == safe_lse(), r.1.e@ == E::SubCol(Box::new(E::W), Box::new(r.0.e@)),
    {
/*@LSE*/
    }
    pub fn vacuity_guard_lse(&self, observations: &ObsTok) -> (r: (VecTok, MatTok))
        ensures false,
    {
        (VecTok { e: Ghost(E::W) }, MatTok { e: Ghost(E::W) })
    }
}
} // verus!
fn main() {}
