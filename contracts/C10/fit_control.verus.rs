//! property: C10
//! unit: V-C10-fit-control
//! tier: quick
//! fns: linfa_clustering::gaussian_mixture::algorithm::GmmValidParams::fit (restart loop, EM iteration control, which state is returned and when an error is returned instead; E-step / M-step / lower bound are tokens)
//@ extract RUNS from algorithms/linfa-clustering/src/gaussian_mixture/algorithm.rs anchor "let mut max_lower_bound = -F::infinity();" until "match best_iter {"
//@ rewrite RUNS "-F::infinity()" => "FT::neg_infinity()"
//@ rewrite RUNS "let mut best_params = None;" => "let mut best_params: Option<GmmTok> = None;"
//@ rewrite RUNS "let mut best_iter = None;" => "let mut best_iter: Option<u64> = None;"
//@ rewrite RUNS "for _ in 0..n_runs {" => "for run in 0..n_runs /*INV1*/ {"
//@ rewrite RUNS "for n_iter in 0..self.max_n_iterations() {" => "let mut n_iter_next: u64 = 0; while n_iter_next < self.max_n_iterations() /*INV2*/ { let n_iter = n_iter_next; n_iter_next += 1;   /* `for n_iter in 0..self.max_n_iterations()` as a while loop (the body uses `break`) */"
//@ rewrite RUNS "GaussianMixtureModel::<F>::compute_lower_bound(" => "compute_lower_bound_abs("
//@ rewrite RUNS "let change = lower_bound - prev_lower_bound;" => "let change = lower_bound.sub_abs(&prev_lower_bound);"
//@ rewrite RUNS "change.abs() < self.tolerance()" => "self.below_tolerance_abs(&change)"
//@ rewrite RUNS "lower_bound > max_lower_bound" => "lower_bound.gt_abs(&max_lower_bound)"
//@ rewrite RUNS "/*INV1*/" => "invariant gmm.steps@ >= 0, best_iter.is_some() ==> best_params.is_some(), best_params.is_some() ==> best_params.unwrap().refreshed@ && (best_iter.is_some() ==> best_params.unwrap().steps@ >= 1 && spec_conv(best_params.unwrap().steps@ - 1)),"
//@ rewrite RUNS "/*INV2*/" => "invariant_except_break converged_iter.is_none(), gmm.steps@ >= 0, ensures gmm.steps@ >= 0, converged_iter.is_some() ==> gmm.steps@ >= 1 && spec_conv(gmm.steps@ - 1), decreases self.max_iter - n_iter_next,"
//@ extract FINAL from algorithms/linfa-clustering/src/gaussian_mixture/algorithm.rs anchor "match best_iter {" block
//@ rewrite-re FINAL "GmmError::LowerBoundError\(\s*\"[^\"]*\"\.to_string\(\),?\s*\)" => "GmmErrorV::LowerBoundError"
//@ drop FINAL from "None => Err(GmmError::NotConverged(format!(" through "))),"  as "            None => Err(GmmErrorV::NotConverged),   /* message text dropped */"
//@ expect-fail vacuity_guard_fit
use vstd::prelude::*;
verus! {
pub assume_specification<T>[ Option::<T>::or ](a: Option<T>, b: Option<T>) -> (r: Option<T>)
    ensures r == (if a.is_some() { a } else { b });
// the mixture's parameters are known by the number of M-steps applied since initialisation (the restarts continue from one another)
pub struct GmmTok { pub steps: Ghost<int>, pub refreshed: Ghost<bool> }
pub struct RespTok { pub of: Ghost<int> }
pub struct FT { pub of: Ghost<int> }          // a lower bound / its change, known by the state it was computed for
pub struct ObsTok;
pub struct RegTok;
#[derive(Debug)]
pub enum GmmErrorV { LowerBoundError, NotConverged, EmptyCluster, Linalg }
pub uninterp spec fn spec_conv(k: int) -> bool;      // "the lower bound computed for state k changed by less than the tolerance against the previous one"
pub uninterp spec fn spec_gt(a: int, b: int) -> bool;
impl FT {
    #[verifier::external_body] pub fn neg_infinity() -> (r: FT) ensures r.of@ == -1 { unimplemented!() }
    #[verifier::external_body] pub fn sub_abs(&self, o: &FT) -> (r: FT) ensures r.of@ == self.of@ { unimplemented!() }
    #[verifier::external_body] pub fn gt_abs(&self, o: &FT) -> (r: bool) ensures r == spec_gt(self.of@, o.of@) { unimplemented!() }
}
// ASSUMED contracts of the float-valued steps: each may fail (emptied component, Cholesky failure) and then changes nothing the caller keeps
impl GmmTok {
    #[verifier::external_body] pub fn e_step(&self, o: &ObsTok) -> (r: Result<(FT, RespTok), GmmErrorV>)
        ensures r.is_ok() ==> r.unwrap().0.of@ == self.steps@ && r.unwrap().1.of@ == self.steps@ { unimplemented!() }
    #[verifier::external_body] pub fn m_step(&mut self, reg: RegTok, o: &ObsTok, log_resp: &RespTok) -> (r: Result<(), GmmErrorV>)
        requires log_resp.of@ == old(self).steps@,          // the responsibilities of THIS state
        ensures r.is_ok() ==> final(self).steps@ == old(self).steps@ + 1 && !final(self).refreshed@ { unimplemented!() }
    #[verifier::external_body] pub fn refresh_precisions_full(&mut self) ensures final(self).steps@ == old(self).steps@, final(self).refreshed@ { unimplemented!() }
    #[verifier::external_body] pub fn clone(&self) -> (r: GmmTok) ensures r.steps@ == self.steps@, r.refreshed@ == self.refreshed@ { unimplemented!() }
}
#[verifier::external_body] pub fn compute_lower_bound_abs(log_resp: &RespTok, log_prob_norm: FT) -> (r: FT) ensures r.of@ == log_prob_norm.of@ { unimplemented!() }

pub struct ParamsV { pub runs: u64, pub max_iter: u64 }
impl ParamsV {
    pub fn n_runs(&self) -> (r: u64) ensures r == self.runs { self.runs }
    pub fn max_n_iterations(&self) -> (r: u64) ensures r == self.max_iter { self.max_iter }
    #[verifier::external_body] pub fn reg_covariance(&self) -> (r: RegTok) { unimplemented!() }
    #[verifier::external_body] pub fn below_tolerance_abs(&self, change: &FT) -> (r: bool) ensures r == spec_conv(change.of@) { unimplemented!() }

    // C10: "failure to converge or an emptied component is reported as an error, never as a model": a model is returned only if it is the state
    // right after an EM iteration whose lower-bound change was below the tolerance (the restart it stems from converged), with its precision
    // matrices refreshed from its final covariances; a failing E- or M-step ends fit with that error (`?`)
    pub fn fit(&self, gmm_in: GmmTok, observations: ObsTok) -> (r: Result<GmmTok, GmmErrorV>)
        requires gmm_in.steps@ == 0,
        ensures r.is_ok() ==> r.unwrap().refreshed@ && r.unwrap().steps@ >= 1 && spec_conv(r.unwrap().steps@ - 1),
    {
        let mut gmm = gmm_in;
/*@RUNS*/
/*@FINAL*/
    }
    pub fn vacuity_guard_fit(&self, gmm_in: GmmTok, observations: ObsTok) -> (r: Result<GmmTok, GmmErrorV>)
        requires gmm_in.steps@ == 0,
        ensures false,
    {
        Err(GmmErrorV::NotConverged)
    }
}
} // verus!
fn main() {}
