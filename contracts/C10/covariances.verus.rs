//! property: C10
//! unit: V-C10-covariances
//! tier: quick
//! fns: linfa_clustering::gaussian_mixture::algorithm::GaussianMixtureModel::estimate_gaussian_covariances_full (per component: responsibility-weighted scatter about that component's mean, divided by its responsibility mass, the configured regularisation added to the diagonal, stored in that component's slice)
//@ extract COV from algorithms/linfa-clustering/src/gaussian_mixture/algorithm.rs anchor "fn estimate_gaussian_covariances_full<D: Data<Elem = F>>(" body
//@ rewrite COV "Array::zeros(" => "Cov3Tok::zeros("
//@ rewrite-re COV "(\w+) - &(\w+)\.row\((\w+)\)" => "\1.sub_row_abs(&\2.row(\3))"
//@ rewrite-re COV "&(\w+)\.t\(\) \* &(\w+)\.index_axis\(Axis\((\d)\), (\w+)\)" => "\1.t_abs().mul_bcast_abs(&\2.index_axis(Axis(\3), \4))"
//@ rewrite-re COV "(\w+)\.dot\(&(\w+)\) / (\w+)\[(\w+)\]" => "\1.dot(&\2).div_scalar_abs(\3.at(\4))"
//@ rewrite-re? COV "\.diag_mut\(\)\.mapv_inplace\(\|x\| x \+ (\w+)\)" => ".add_to_diag_abs(\1)"
//@ rewrite-re COV "(\w+)\.slice_mut\(s!\[(\w+), \.\., \.\.\]\)\.assign\(&(\w+)\)" => "\1.set_slice_abs(\2, &\3)"
//@ insert COV before-brace "for k in 0..n_clusters " : invariant n_clusters == means.nr, covariances.slices@.len() == n_clusters, observations.e@ == E::Obs, resp.e@ == E::Resp, nk.e@ == E::Nk, means.e@ == E::Means, reg_covar.e@ == E::Reg, forall|j: int| 0 <= j < k ==> #[trigger] covariances.slices@[j] == cov_expr(j),
//@ expect-fail vacuity_guard_cov
use vstd::prelude::*;
verus! {
pub enum E {
    Obs, Means, Resp, Nk, Reg, Zero,
    Row(Box<E>, int), Col(Box<E>, int, int), At(Box<E>, int),
    SubRow(Box<E>, Box<E>), T(Box<E>), MulB(Box<E>, Box<E>), Dot(Box<E>, Box<E>), DivS(Box<E>, Box<E>), AddDiag(Box<E>, Box<E>),
}
pub struct Axis(pub usize);
#[derive(Clone, Copy)]
pub struct ST { pub e: Ghost<E> }
pub struct AT { pub e: Ghost<E>, pub nr: usize, pub nc: usize }
// ASSUMED of ndarray: rows / lanes, broadcasting, transposition, matrix product, scalar division, adding onto the diagonal
impl AT {
    pub fn nrows(&self) -> (r: usize) ensures r == self.nr { self.nr }
    pub fn ncols(&self) -> (r: usize) ensures r == self.nc { self.nc }
    #[verifier::external_body] pub fn row(&self, k: usize) -> (r: AT) requires k < self.nr, ensures r.e@ == E::Row(Box::new(self.e@), k as int) { unimplemented!() }
    #[verifier::external_body] pub fn index_axis(&self, a: Axis, k: usize) -> (r: AT) ensures r.e@ == E::Col(Box::new(self.e@), a.0 as int, k as int) { unimplemented!() }
    #[verifier::external_body] pub fn at(&self, k: usize) -> (r: ST) ensures r.e@ == E::At(Box::new(self.e@), k as int) { unimplemented!() }
    #[verifier::external_body] pub fn sub_row_abs(&self, v: &AT) -> (r: AT) ensures r.e@ == E::SubRow(Box::new(self.e@), Box::new(v.e@)) { unimplemented!() }
    #[verifier::external_body] pub fn t_abs(&self) -> (r: AT) ensures r.e@ == E::T(Box::new(self.e@)) { unimplemented!() }
    #[verifier::external_body] pub fn mul_bcast_abs(&self, v: &AT) -> (r: AT) ensures r.e@ == E::MulB(Box::new(self.e@), Box::new(v.e@)) { unimplemented!() }
    #[verifier::external_body] pub fn dot(&self, o: &AT) -> (r: AT) ensures r.e@ == E::Dot(Box::new(self.e@), Box::new(o.e@)) { unimplemented!() }
    #[verifier::external_body] pub fn div_scalar_abs(&self, s: ST) -> (r: AT) ensures r.e@ == E::DivS(Box::new(self.e@), Box::new(s.e@)) { unimplemented!() }
    #[verifier::external_body] pub fn add_to_diag_abs(&mut self, s: ST) ensures final(self).e@ == E::AddDiag(Box::new(old(self).e@), Box::new(s.e@)) { unimplemented!() }
}
pub struct Cov3Tok { pub slices: Ghost<Seq<E>> }
impl Cov3Tok {
    #[verifier::external_body] pub fn zeros(shape: (usize, usize, usize)) -> (r: Cov3Tok) ensures r.slices@.len() == shape.0 { unimplemented!() }
    #[verifier::external_body] pub fn set_slice_abs(&mut self, k: usize, m: &AT) requires k < old(self).slices@.len(), ensures final(self).slices@ == old(self).slices@.update(k as int, m.e@) { unimplemented!() }
}
pub open spec fn dev(k: int) -> E { E::SubRow(Box::new(E::Obs), Box::new(E::Row(Box::new(E::Means), k))) }
// C10: component k's covariance is sum_i r_ik (x_i - mu_k)(x_i - mu_k)^T / sum_i r_ik with the configured regularisation ON ITS DIAGONAL
// ("covariances whose diagonal includes the configured regularisation"), for every component, each in its own slice
pub open spec fn cov_expr(k: int) -> E {
    E::AddDiag(Box::new(E::DivS(Box::new(E::Dot(Box::new(E::MulB(Box::new(E::T(Box::new(dev(k)))), Box::new(E::Col(Box::new(E::Resp), 1, k)))), Box::new(dev(k)))), Box::new(E::At(Box::new(E::Nk), k)))), Box::new(E::Reg))
}
pub fn estimate_gaussian_covariances_full(observations: &AT, resp: &AT, nk: &AT, means: &AT, reg_covar: ST) -> (r: Cov3Tok)
    requires observations.e@ == E::Obs, resp.e@ == E::Resp, nk.e@ == E::Nk, means.e@ == E::Means, reg_covar.e@ == E::Reg,
    ensures r.slices@.len() == means.nr, forall|k: int| 0 <= k < means.nr ==> #[trigger] r.slices@[k] == cov_expr(k),
{
/*@COV*/
}
pub fn vacuity_guard_cov(observations: &AT, resp: &AT, nk: &AT, means: &AT, reg_covar: ST) -> (r: Cov3Tok)
    requires observations.e@ == E::Obs, resp.e@ == E::Resp, nk.e@ == E::Nk, means.e@ == E::Means, reg_covar.e@ == E::Reg,
    ensures false,
{
    Cov3Tok::zeros((0, 0, 0))
}
} // verus!
fn main() {}
