//! property: C10
//! unit: V-C10-m-step
//! tier: quick
//! fns: linfa_clustering::gaussian_mixture::algorithm::GaussianMixtureModel::estimate_gaussian_parameters, linfa_clustering::gaussian_mixture::algorithm::GaussianMixtureModel::m_step (an emptied component is an error before anything is divided by its mass; weights = responsibility mass / number of samples; means, covariances and the Cholesky factors of the precisions all stem from the same responsibilities)
//@ extract EGP from algorithms/linfa-clustering/src/gaussian_mixture/algorithm.rs anchor "fn estimate_gaussian_parameters<D: Data<Elem = F>>(" body
//@ rewrite EGP "nk.min()? < &(F::cast(10.) * F::epsilon())" => "nk.min_below_ten_eps_abs()?   /* nk.min()? < &(F::cast(10.) * F::epsilon()) */"
//@ drop EGP from "return Err(GmmError::EmptyCluster(format!(" through ")));" as "            return Err(GmmErrorV::EmptyCluster);   /* message text dropped */"
//@ rewrite-re EGP "(\w+)\.t\(\)\.dot\((\w+)\) / (\w+);" => "\1.t_abs().dot(\2).div_col_abs(&\3);"
//@ rewrite EGP "Self::estimate_gaussian_covariances_full(" => "estimate_gaussian_covariances_full("
//@ extract MS from algorithms/linfa-clustering/src/gaussian_mixture/algorithm.rs anchor "fn m_step<D: Data<Elem = F>>(" body
//@ rewrite MS "Self::estimate_gaussian_parameters(" => "estimate_gaussian_parameters_tok("
//@ rewrite-re MS "\.mapv\(\|x\| x\.exp\(\)\)" => ".exp_abs()   /* .mapv(|x| x.exp()) */"
//@ rewrite-re MS "(\w+) / F::cast\(([\w.()]+)\);" => "\1.div_count_abs(\2);"
//@ rewrite MS "Self::compute_precisions_cholesky_full(" => "compute_precisions_cholesky_full_tok("
//@ expect-fail vacuity_guard_mstep
use vstd::prelude::*;
verus! {
pub enum E {
    Obs, LogResp, Reg, Exp(Box<E>), SumAxis0(Box<E>), Col1(Box<E>), T(Box<E>), Dot(Box<E>, Box<E>), DivCol(Box<E>, Box<E>), DivCount(Box<E>, int),
    Cov(Box<E>, Box<E>, Box<E>, Box<E>, Box<E>),      // estimate_gaussian_covariances_full(obs, resp, nk, means, reg) - its own contract: V-C10-covariances
    PrecChol(Box<E>),
}
pub struct Axis(pub usize);
#[derive(Clone, Copy)]
pub struct ST { pub e: Ghost<E> }
pub struct AT { pub e: Ghost<E>, pub nr: usize }
#[derive(Debug)]
pub enum GmmErrorV { EmptyCluster, Linalg, MinMax }
pub uninterp spec fn spec_emptied(nk: E) -> bool;         // "some component's responsibility mass is below 10 * machine epsilon"
pub struct CovarTypeTok;
impl AT {
    pub fn nrows(&self) -> (r: usize) ensures r == self.nr { self.nr }
    #[verifier::external_body] pub fn sum_axis(&self, a: Axis) -> (r: AT) requires a.0 == 0, ensures r.e@ == E::SumAxis0(Box::new(self.e@)) { unimplemented!() }
    // ndarray-stats min() fails only on an empty or NaN-holding array (ASSUMED)
    #[verifier::external_body] pub fn min_below_ten_eps_abs(&self) -> (r: Result<bool, GmmErrorV>) ensures r.is_ok() ==> r.unwrap() == spec_emptied(self.e@) { unimplemented!() }
    #[verifier::external_body] pub fn to_owned(&self) -> (r: AT) ensures r.e@ == self.e@ { unimplemented!() }
    #[verifier::external_body] pub fn insert_axis(self, a: Axis) -> (r: AT) requires a.0 == 1, ensures r.e@ == E::Col1(Box::new(self.e@)) { unimplemented!() }
    #[verifier::external_body] pub fn t_abs(&self) -> (r: AT) ensures r.e@ == E::T(Box::new(self.e@)) { unimplemented!() }
    #[verifier::external_body] pub fn dot(&self, o: &AT) -> (r: AT) ensures r.e@ == E::Dot(Box::new(self.e@), Box::new(o.e@)) { unimplemented!() }
    #[verifier::external_body] pub fn div_col_abs(&self, c: &AT) -> (r: AT) ensures r.e@ == E::DivCol(Box::new(self.e@), Box::new(c.e@)) { unimplemented!() }
    #[verifier::external_body] pub fn exp_abs(&self) -> (r: AT) ensures r.e@ == E::Exp(Box::new(self.e@)) { unimplemented!() }
    #[verifier::external_body] pub fn div_count_abs(&self, n: usize) -> (r: AT) ensures r.e@ == E::DivCount(Box::new(self.e@), n as int) { unimplemented!() }
}
#[verifier::external_body]
pub fn estimate_gaussian_covariances_full(observations: &AT, resp: &AT, nk: &AT, means: &AT, reg_covar: ST) -> (r: AT)
    ensures r.e@ == E::Cov(Box::new(observations.e@), Box::new(resp.e@), Box::new(nk.e@), Box::new(means.e@), Box::new(reg_covar.e@)),
{ unimplemented!() }
pub open spec fn nk_of(resp: E) -> E { E::SumAxis0(Box::new(resp)) }
pub open spec fn means_of(obs: E, resp: E) -> E { E::DivCol(Box::new(E::Dot(Box::new(E::T(Box::new(resp))), Box::new(obs))), Box::new(E::Col1(Box::new(nk_of(resp))))) }
pub open spec fn cov_of(obs: E, resp: E, reg: E) -> E { E::Cov(Box::new(obs), Box::new(resp), Box::new(nk_of(resp)), Box::new(means_of(obs, resp)), Box::new(reg)) }
// C10: "an emptied component is reported as an error, never as a model with non-finite parameters": an emptied component (mass below 10 eps) always ends in Err - the quotients by that mass are never returned;
// otherwise mass, means (responsibility-weighted averages) and covariances all stem from the same responsibilities
pub fn estimate_gaussian_parameters(observations: &AT, resp: &AT, _covar_type: &CovarTypeTok, reg_covar: ST) -> (r: Result<(AT, AT, AT), GmmErrorV>)
    ensures spec_emptied(nk_of(resp.e@)) ==> r.is_err(),
        r.is_ok() ==> !spec_emptied(nk_of(resp.e@)) && r.unwrap().0.e@ == nk_of(resp.e@) && r.unwrap().1.e@ == means_of(observations.e@, resp.e@) && r.unwrap().2.e@ == cov_of(observations.e@, resp.e@, reg_covar.e@),
{
/*@EGP*/
}
#[verifier::external_body]
pub fn estimate_gaussian_parameters_tok(observations: &AT, resp: &AT, _covar_type: &CovarTypeTok, reg_covar: ST) -> (r: Result<(AT, AT, AT), GmmErrorV>)
    ensures r.is_ok() ==> r.unwrap().0.e@ == nk_of(resp.e@) && r.unwrap().1.e@ == means_of(observations.e@, resp.e@) && r.unwrap().2.e@ == cov_of(observations.e@, resp.e@, reg_covar.e@),
{ unimplemented!() }
#[verifier::external_body]
pub fn compute_precisions_cholesky_full_tok(cov: &AT) -> (r: Result<AT, GmmErrorV>) ensures r.is_ok() ==> r.unwrap().e@ == E::PrecChol(Box::new(cov.e@)) { unimplemented!() }
pub struct GmmV { pub covar_type: CovarTypeTok, pub weights: AT, pub means: AT, pub covariances: AT, pub precisions_chol: AT }
impl AT { }
impl GmmV {
    // C10: "weights ... summing to one": weight k = (sum_i r_ik) / n with r = exp(log responsibilities) and n the number of observations (rows of r sum to one);
    // the Cholesky factors of the precisions are computed from the NEW covariances
    pub fn m_step(&mut self, reg_covar: ST, observations: &AT, log_resp: &AT) -> (r: Result<(), GmmErrorV>)
        ensures r.is_ok() ==> ({ let resp = E::Exp(Box::new(log_resp.e@));
            &&& final(self).weights.e@ == E::DivCount(Box::new(nk_of(resp)), observations.nr as int)
            &&& final(self).means.e@ == means_of(observations.e@, resp)
            &&& final(self).covariances.e@ == cov_of(observations.e@, resp, reg_covar.e@)
            &&& final(self).precisions_chol.e@ == E::PrecChol(Box::new(final(self).covariances.e@)) }),
    {
/*@MS*/
    }
    pub fn vacuity_guard_mstep(&mut self, reg_covar: ST, observations: &AT, log_resp: &AT) -> (r: Result<(), GmmErrorV>)
        ensures false,
    {
        Ok(())
    }
}
} // verus!
fn main() {}
