//! property: C10
//! unit: V-C10-predict-argmax
//! tier: quick
//! fns: linfa_clustering::gaussian_mixture::algorithm::GaussianMixtureModel::predict_inplace, linfa_clustering::gaussian_mixture::algorithm::GaussianMixtureModel::predict_proba (the predicted component is an index of a maximal entry of the sample's row of the very matrix predict_proba returns)
//@ extract PP from algorithms/linfa-clustering/src/gaussian_mixture/algorithm.rs anchor "pub fn predict_proba<D: Data<Elem = F>>(&self, observations: &ArrayBase<D, Ix2>) -> Array2<F> {" body
//@ rewrite PP "let (_, log_resp)" => "let (norm_unused, log_resp)"
//@ rewrite PP ".mapv(F::exp)" => ".mapv_exp_abs()   /* .mapv(F::exp) */"
//@ extract PI from algorithms/linfa-clustering/src/gaussian_mixture/algorithm.rs anchor "fn predict_inplace(&self, observations: &ArrayBase<D, Ix2>, targets: &mut Array1<usize>) {" body
//@ drop PI from "assert_eq!(" through ");" as "        assert_len_abs(observations.nrows(), targets.len());   /* assert_eq!(observations.nrows(), targets.len(), ..) */"
//@ rewrite? PI "let (_, log_resp)" => "let (norm_unused, log_resp)"
//@ rewrite? PI ".mapv(F::exp)" => ".mapv_exp_abs()   /* .mapv(F::exp) */"
//@ rewrite-re PI "\.map_axis\(Axis\((\d)\), \|row\| (.+)\);" => ".map_axis_abs(Axis(\1), |row: RowTok| -> (o: usize) requires row.v@.len() > 0 ensures is_argmax(row.v@, o as int) { \2 });"
//@ expect-fail vacuity_guard_predict
use vstd::prelude::*;
verus! {
pub enum E { LogResp(int), Exp(Box<E>), WeightedLogProb(int), LogProb(int) }
pub uninterp spec fn rows_of(e: E) -> Seq<Seq<real>>;          // the numbers in the matrix `e`, row by row
pub open spec fn is_argmax(row: Seq<real>, k: int) -> bool { 0 <= k < row.len() && forall|j: int| 0 <= j < row.len() ==> #[trigger] row[j] <= row[k] }
pub struct Axis(pub usize);
pub struct RowTok { pub v: Ghost<Seq<real>> }
#[derive(Debug)]
pub struct ErrTok;
impl RowTok {
    // ndarray-stats argmax (ASSUMED): an index of a maximal entry; an error only for an empty (or NaN-holding: outside the reals) row
    #[verifier::external_body] pub fn argmax(&self) -> (r: Result<usize, ErrTok>) ensures self.v@.len() > 0 ==> r.is_ok() && is_argmax(self.v@, r.unwrap() as int) { unimplemented!() }
    #[verifier::external_body] pub fn argmin(&self) -> (r: Result<usize, ErrTok>) ensures self.v@.len() > 0 ==> r.is_ok() && is_argmax(self.v@.map_values(|x: real| -x), r.unwrap() as int) { unimplemented!() }
}
pub struct IdxTok { pub v: Ghost<Seq<int>> }
impl IdxTok { #[verifier::external_body] pub fn len(&self) -> (r: usize) ensures r == self.v@.len() { unimplemented!() } }
pub struct VecTok;
pub struct MatTok { pub e: Ghost<E>, pub ncols: Ghost<int> }
impl MatTok {
    #[verifier::external_body] pub fn mapv_exp_abs(&self) -> (r: MatTok) ensures r.e@ == E::Exp(Box::new(self.e@)), r.ncols@ == self.ncols@ { unimplemented!() }
    // ASSUMED of ndarray: map_axis(Axis(1), f) applies f to every ROW (lane along axis 1) and collects the results in row order
    #[verifier::external_body]
    pub fn map_axis_abs<G: Fn(RowTok) -> usize>(&self, a: Axis, f: G) -> (r: IdxTok)
        requires a.0 == 1, self.ncols@ > 0, forall|row: RowTok| row.v@.len() > 0 ==> f.requires((row,)),
            forall|i: int| 0 <= i < rows_of(self.e@).len() ==> (#[trigger] rows_of(self.e@)[i]).len() == self.ncols@,
        ensures r.v@.len() == rows_of(self.e@).len(),
            forall|i: int| 0 <= i < r.v@.len() ==> exists|row: RowTok, o: usize| row.v@ == rows_of(self.e@)[i] && #[trigger] f.ensures((row,), o) && o as int == #[trigger] r.v@[i],
    { unimplemented!() }
}
pub struct ObsTok { pub id: Ghost<int>, pub n: usize }
impl ObsTok { pub fn nrows(&self) -> (r: usize) ensures r == self.n { self.n } }
#[verifier::external_body] pub fn assert_len_abs(a: usize, b: usize) requires a == b { unimplemented!() }
pub open spec fn proba(obs: int) -> E { E::Exp(Box::new(E::LogResp(obs))) }
// ASSUMED mathematical fact: responsibilities are exp(weighted log probability - a per-row constant), a strictly increasing map within each row,
// so a row of the weighted log probabilities, of the log responsibilities and of the responsibilities have the same arg-max set
// (the UNWEIGHTED log probabilities do not: they miss ln weight_j)
#[verifier::external_body]
pub proof fn lemma_weighted_argmax(o: int)
    ensures rows_of(E::WeightedLogProb(o)).len() == rows_of(proba(o)).len(), rows_of(E::LogResp(o)).len() == rows_of(proba(o)).len(),
        forall|i: int, k: int| 0 <= i < rows_of(proba(o)).len() ==> (#[trigger] is_argmax(rows_of(E::WeightedLogProb(o))[i], k) <==> is_argmax(rows_of(proba(o))[i], k)),
        forall|i: int, k: int| 0 <= i < rows_of(proba(o)).len() ==> (#[trigger] is_argmax(rows_of(E::LogResp(o))[i], k) <==> is_argmax(rows_of(proba(o))[i], k)),
        forall|i: int| 0 <= i < rows_of(proba(o)).len() ==> (#[trigger] rows_of(E::WeightedLogProb(o))[i]).len() == rows_of(proba(o))[i].len(),
        forall|i: int| 0 <= i < rows_of(proba(o)).len() ==> (#[trigger] rows_of(E::LogResp(o))[i]).len() == rows_of(proba(o))[i].len(),
{}
pub struct ModelV { pub k: Ghost<int> }
impl ModelV {
    // (log P(x), log responsibilities): one row per observation, one column per component (ASSUMED: float code with exp / ln / Cholesky)
    #[verifier::external_body]
    pub fn estimate_log_prob_resp(&self, o: &ObsTok) -> (r: (VecTok, MatTok))
        ensures r.1.e@ == E::LogResp(o.id@), r.1.ncols@ == self.k@,
    { unimplemented!() }
    // the sibling estimators of the model (ASSUMED float code): log N(x | mean_j, cov_j) + ln weight_j, and the same without the weights
    #[verifier::external_body]
    pub fn estimate_weighted_log_prob(&self, o: &ObsTok) -> (r: MatTok) ensures r.e@ == E::WeightedLogProb(o.id@), r.ncols@ == self.k@ { unimplemented!() }
    #[verifier::external_body]
    pub fn estimate_log_prob(&self, o: &ObsTok) -> (r: MatTok) ensures r.e@ == E::LogProb(o.id@), r.ncols@ == self.k@ { unimplemented!() }
    pub fn predict_proba(&self, observations: &ObsTok) -> (r: MatTok)
        ensures r.e@ == proba(observations.id@),
    {
/*@PP*/
    }
    // C10: "the predicted component is one of maximal probability"
    pub fn predict_inplace(&self, observations: &ObsTok, targets: &mut IdxTok)
        requires self.k@ > 0, old(targets).v@.len() == observations.n,
            rows_of(proba(observations.id@)).len() == observations.n,
            forall|i: int| 0 <= i < observations.n ==> (#[trigger] rows_of(proba(observations.id@))[i]).len() == self.k@,
        ensures final(targets).v@.len() == observations.n,
            forall|i: int| 0 <= i < observations.n ==> is_argmax(rows_of(proba(observations.id@))[i], #[trigger] final(targets).v@[i]),
    {
        proof { lemma_weighted_argmax(observations.id@); }
/*@PI*/
    }
    pub fn vacuity_guard_predict(&self, observations: &ObsTok, targets: &mut IdxTok)
        requires self.k@ > 0, old(targets).v@.len() == observations.n,
            rows_of(proba(observations.id@)).len() == observations.n,
            forall|i: int| 0 <= i < observations.n ==> (#[trigger] rows_of(proba(observations.id@))[i]).len() == self.k@,
        ensures false,
    {
    }
}
} // verus!
fn main() {}
