//! property: C13
//! unit: V-C13-publish-scale
//! tier: quick
//! fns: linfa_svm::classification::fit_c (what is published after solve), linfa_svm::classification::fit_nu (the 1/r rescaling of the published model)
//@ extract CTAIL from algorithms/linfa-svm/src/classification.rs anchor "pub fn fit_c<F: Float>(" body
//@ drop CTAIL from "let bounds = targets" through "let mut res = solver.solve();" as "    let mut res = res_in;   /* dropped: problem set-up and solver.solve() */"
//@ rewrite CTAIL ".into_iter()" => ".iter_tok()"
//@ rewrite CTAIL ".zip(targets.iter())" => ".zip_targets(targets)"
//@ rewrite CTAIL ".map(|(a, b)| if *b { a } else { -a })" => ".map_sign()   /* closure: +a for a positive sample, -a for a negative one */"
//@ rewrite CTAIL ".collect();" => ".collect_tok();"
//@ extract NTAIL from algorithms/linfa-svm/src/classification.rs anchor "pub fn fit_nu<F: Float>(" body
//@ drop NTAIL from "let mut sum_pos = nu" through "let mut res = solver.solve();" as "    let mut res = res_in;   /* dropped: problem set-up and solver.solve() */"
//@ rewrite NTAIL ".into_iter()" => ".iter_tok()"
//@ rewrite NTAIL ".zip(targets.iter())" => ".zip_targets(targets)"
//@ rewrite NTAIL ".map(|(a, b)| if *b { a } else { -a })" => ".map_sign()   /* closure: +a for a positive sample, -a for a negative one */"
//@ rewrite NTAIL ".map(|x| x / r)" => ".map_div(r)   /* closure: x / r */"
//@ rewrite NTAIL ".collect();" => ".collect_tok();"
//@ rewrite NTAIL "res.rho /= r;" => "res.rho = res.rho.div_tok(r);"
//@ rewrite NTAIL "res.obj /= r * r;" => "res.obj = res.obj.div_tok(r).div_tok(r);"
//@ rewrite? NTAIL "SeparatingHyperplane::" => "HyperV::"
//@ rewrite? NTAIL "w / r" => "w.div_tok(r)"
//@ expect-fail vacuity_guard_publish
use vstd::prelude::*;
verus! {
// ---- tokens: a float quantity is (what it is, by which power of the nu-SVM scale r it has been divided) ----
#[derive(Clone, Copy)]
pub struct FTok { pub what: Ghost<int>, pub k: Ghost<int> }
impl FTok {
    #[verifier::external_body]
    pub fn div_tok(self, r: FTok) -> (q: FTok) requires r.what@ == 99, ensures q.what@ == self.what@, q.k@ == self.k@ + 1 { unimplemented!() }   // x / r
}
// the coefficient vector: signed = carries the class sign y_i, k = divided by r^k; same order and length as the samples throughout
pub struct AlphaV { pub signed: Ghost<bool>, pub k: Ghost<int> }
impl AlphaV {
    #[verifier::external_body]
    pub fn iter_tok(&self) -> (r: AlphaV) ensures r.signed@ == self.signed@, r.k@ == self.k@ { unimplemented!() }
    #[verifier::external_body]
    pub fn zip_targets(self, t: &TargetsV) -> (r: AlphaV) ensures r.signed@ == self.signed@, r.k@ == self.k@ { unimplemented!() }
    #[verifier::external_body]
    pub fn map_sign(self) -> (r: AlphaV) requires !self.signed@, ensures r.signed@, r.k@ == self.k@ { unimplemented!() }
    #[verifier::external_body]
    pub fn map_div(self, d: FTok) -> (r: AlphaV) requires d.what@ == 99, ensures r.signed@ == self.signed@, r.k@ == self.k@ + 1 { unimplemented!() }
    #[verifier::external_body]
    pub fn collect_tok(self) -> (r: AlphaV) ensures r.signed@ == self.signed@, r.k@ == self.k@ { unimplemented!() }
}
pub struct TargetsV;
// the linear hyperplane w = sum_i y_i alpha_i x_i (solve() builds it from the solver's own alpha: V-C13-hyperplane), divided by r^k
pub struct WTok { pub k: Ghost<int> }
impl WTok {
    #[verifier::external_body]
    pub fn div_tok(self, r: FTok) -> (q: WTok) requires r.what@ == 99, ensures q.k@ == self.k@ + 1 { unimplemented!() }
}
pub enum HyperV { Linear(WTok), WeightedCombination(Ghost<int>) }
pub struct SvmV { pub alpha: AlphaV, pub rho: FTok, pub obj: FTok, pub r: Option<FTok>, pub sep_hyperplane: HyperV }

// what solve() hands over: non-negative alpha in sample order, rho, the objective, r (nu problems), the hyperplane - all unscaled
pub open spec fn from_solver(s: &SvmV) -> bool {
    !s.alpha.signed@ && s.alpha.k@ == 0 && s.rho.what@ == 1 && s.rho.k@ == 0 && s.obj.what@ == 2 && s.obj.k@ == 0
    && (s.r is Some ==> s.r.unwrap().what@ == 99 && s.r.unwrap().k@ == 0)
    && (s.sep_hyperplane is Linear ==> s.sep_hyperplane->Linear_0.k@ == 0)
}
// C13: "the decision value of any sample equals sum_i alpha_i K(x_i, x) - rho computed from the PUBLISHED coefficients": the published
// alpha carries the class signs, and alpha, rho and - for the linear kernel, where prediction uses the pre-combined vector w instead of
// alpha - the hyperplane are all divided by the same power of r
pub open spec fn alpha_published(s: &SvmV, k: int) -> bool { s.alpha.signed@ && s.alpha.k@ == k }
pub open spec fn rho_published(s: &SvmV, k: int) -> bool { s.rho.what@ == 1 && s.rho.k@ == k }
pub open spec fn hyperplane_published(s: &SvmV, k: int) -> bool { s.sep_hyperplane is Linear ==> s.sep_hyperplane->Linear_0.k@ == k }

// ---- fit_c: body extracted from /repo on every run; everything up to and including `solver.solve()` dropped ----
pub fn fit_c_tail(res_in: SvmV, targets: &TargetsV) -> (out: SvmV)
    requires from_solver(&res_in),
    ensures alpha_published(&out, 0), rho_published(&out, 0), hyperplane_published(&out, 0),
{
/*@CTAIL*/
}

// ---- fit_nu: body extracted from /repo on every run; everything up to and including `solver.solve()` dropped ----
pub fn fit_nu_tail(res_in: SvmV, targets: &TargetsV) -> (out: SvmV)
    requires from_solver(&res_in), res_in.r is Some,
    ensures alpha_published(&out, 1), rho_published(&out, 1), hyperplane_published(&out, 1),
{
/*@NTAIL*/
}

pub fn vacuity_guard_publish(res_in: SvmV, targets: &TargetsV) -> (out: SvmV)
    requires from_solver(&res_in), res_in.r is Some,
    ensures false,
{
    res_in
}
} // verus!
fn main() {}
