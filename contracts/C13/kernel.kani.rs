//! property: C13
//! attach: algorithms/linfa-svm/src/permutable_kernel.rs
//! module: vk_c13_kernel
// @include common/prelude.rs
use super::{Permutable, PermutableKernel, PermutableKernelOneClass};
use linfa_kernel::{Kernel, KernelInner, KernelMethod};
use ndarray::Array2;

// The contract V-C13-smo ASSUMES of the kernel oracle (trait `Permutable`), checked here on the two real implementations:
// after any sequence of swap_indices, position p of the solver stands for sample pi(p), and
//     distances(p, length)[j] = y_pi(p) * y_pi(j) * K[pi(j), pi(p)]      (classification / regression: Q_ij = y_i y_j K_ij)
//     distances(p, length)[j] =                     K[pi(j), pi(p)]      (one-class)
//     self_distance(p)        = K[pi(p), pi(p)]
// for every length <= n.  pi = two arbitrary transpositions applied to the identity (reaches every permutation of 3 positions).
const N: usize = 3;
fn small() -> f32 { let c: i8 = kani::any(); kani::assume(c >= -4 && c <= 4); c as f32 }
fn lt_n() -> usize { let v: usize = kani::any(); kani::assume(v < N); v }
fn any_kernel() -> ([[f32; N]; N], Kernel<f32>) {
    let mut q = [[0.0f32; N]; N];
    for a in 0..N { for b in a..N { let v = small(); q[a][b] = v; q[b][a] = v; } }          // symmetric
    let mut m = Array2::<f32>::zeros((N, N));
    for a in 0..N { for b in 0..N { m[(a, b)] = q[a][b]; } }
    (q, Kernel { inner: KernelInner::Dense(m), method: KernelMethod::Linear })
}

// @unit class=bounded tier=quick mem=heavy bound="n=3 samples, symmetric integer kernel matrix, every class pattern, every permutation (two transpositions), every position and length" timeout=1200 fns=linfa_svm::permutable_kernel::PermutableKernel::distances,linfa_svm::permutable_kernel::PermutableKernel::self_distance,linfa_svm::permutable_kernel::PermutableKernel::swap_indices
#[kani::proof]
#[kani::unwind(5)]
#[kani::stub(alloc::fmt::format, fmt_stub)]
fn c13_permutable_kernel_is_signed_permuted_q() {
    let (q, k) = any_kernel();
    let y: [bool; N] = kani::any();
    let mut pk = PermutableKernel::new(k, y.to_vec());
    let mut pi = [0usize, 1, 2];
    let (a, b, c, d) = (lt_n(), lt_n(), lt_n(), lt_n());
    pk.swap_indices(a, b); pi.swap(a, b);
    pk.swap_indices(c, d); pi.swap(c, d);
    let p = lt_n();
    let length: usize = kani::any(); kani::assume(length <= N);
    let dist = pk.distances(p, length);
    assert!(dist.len() == length);
    for j in 0..N {
        if j < length {
            let v = q[pi[j]][pi[p]];
            assert!(dist[j] == if y[pi[j]] != y[pi[p]] { -v } else { v });
        }
    }
    assert!(pk.self_distance(p) == q[pi[p]][pi[p]]);
    kani::cover!(pi[0] == 2 && pi[1] == 0 && length == N && y[0] != y[1] && q[0][1] != 0.0);
}

// @unit class=bounded tier=quick mem=heavy bound="n=3 samples, symmetric integer kernel matrix, every permutation (two transpositions), every position and length; one-class" timeout=1200 fns=linfa_svm::permutable_kernel::PermutableKernelOneClass::distances,linfa_svm::permutable_kernel::PermutableKernelOneClass::self_distance
#[kani::proof]
#[kani::unwind(5)]
#[kani::stub(alloc::fmt::format, fmt_stub)]
fn c13_permutable_kernel_one_class_is_permuted_k() {
    let (q, k) = any_kernel();
    let mut pk = PermutableKernelOneClass::new(k);
    let mut pi = [0usize, 1, 2];
    let (a, b, c, d) = (lt_n(), lt_n(), lt_n(), lt_n());
    pk.swap_indices(a, b); pi.swap(a, b);
    pk.swap_indices(c, d); pi.swap(c, d);
    let p = lt_n();
    let length: usize = kani::any(); kani::assume(length <= N);
    let dist = pk.distances(p, length);
    assert!(dist.len() == length);
    for j in 0..N {
        if j < length { assert!(dist[j] == q[pi[j]][pi[p]]); }
    }
    assert!(pk.self_distance(p) == q[pi[p]][pi[p]]);
    kani::cover!(pi[0] == 1 && pi[2] == 0 && length == N && q[0][1] != q[0][2]);
}
