//! property: C13
//! unit: V-C13-violating-pair
//! tier: quick
//! fns: linfa_svm::solver_smo::SolverState::max_violating_pair, linfa_svm::solver_smo::SolverState::max_violating_pair_nu
//@ extract MVP from algorithms/linfa-svm/src/solver_smo.rs anchor "pub fn max_violating_pair(&self) -> ((F, isize), (F, isize)) {" body
//@ rewrite MVP "-F::infinity()" => "FTok::neg_infinity()"
//@ rewrite MVP "-self.gradient[i]" => "self.gradient[i].neg()"
//@ rewrite MVP " >= gmax1.0" => ".ge_tok(gmax1.0)"
//@ rewrite MVP " >= gmax2.0" => ".ge_tok(gmax2.0)"
//@ insert MVP before-brace "for i in 0..self.nactive() " : invariant self.wf(), best_of(gmax1, self, i as int, 1, false), best_of(gmax2, self, i as int, 2, false),
//@ extract MVPNU from algorithms/linfa-svm/src/solver_smo.rs anchor "pub fn max_violating_pair_nu(&self) -> ((F, isize), (F, isize), (F, isize), (F, isize)) {" body
//@ rewrite MVPNU "-F::infinity()" => "FTok::neg_infinity()"
//@ rewrite MVPNU "-self.gradient[i]" => "self.gradient[i].neg()"
//@ rewrite MVPNU " > gmax1.0" => ".gt_tok(gmax1.0)"
//@ rewrite MVPNU " > gmax2.0" => ".gt_tok(gmax2.0)"
//@ rewrite MVPNU " > gmax3.0" => ".gt_tok(gmax3.0)"
//@ rewrite MVPNU " > gmax4.0" => ".gt_tok(gmax4.0)"
//@ insert MVPNU before-brace "for i in 0..self.nactive() " : invariant self.wf(), best_of(gmax1, self, i as int, 11, true), best_of(gmax2, self, i as int, 12, true), best_of(gmax3, self, i as int, 13, true), best_of(gmax4, self, i as int, 14, true),
//@ expect-fail vacuity_guard_pair
use vstd::prelude::*;
verus! {
// floats as mathematical numbers (ASSUMPTION: the gradients are not NaN; negation and comparison are exact in IEEE arithmetic)
#[derive(Clone, Copy)]
pub struct FTok { pub v: Ghost<int> }
pub uninterp spec fn neg_inf() -> int;
impl FTok {
    #[verifier::external_body] pub fn neg_infinity() -> (r: FTok) ensures r.v@ == neg_inf() { unimplemented!() }
    #[verifier::external_body] pub fn neg(self) -> (r: FTok) ensures r.v@ == -self.v@ { unimplemented!() }
    #[verifier::external_body] pub fn ge_tok(self, o: FTok) -> (r: bool) ensures r == (self.v@ >= o.v@) { unimplemented!() }
    #[verifier::external_body] pub fn gt_tok(self, o: FTok) -> (r: bool) ensures r == (self.v@ > o.v@) { unimplemented!() }
}
pub struct AlphaV { pub upper: bool, pub lower: bool }
impl AlphaV {
    pub fn reached_upper(&self) -> (r: bool) ensures r == self.upper { self.upper }
    pub fn reached_lower(&self) -> (r: bool) ensures r == self.lower { self.lower }
}
pub struct SolverV { pub targets: Vec<bool>, pub alpha: Vec<AlphaV>, pub gradient: Vec<FTok>, pub nact: usize }
// the candidate value of variable i for maximum number `which`, if it is in the index set of that maximum (Keerthi et al. / libsvm):
//   C-formulations: 1 = max over I_up of -y_i G_i, 2 = max over I_low of y_i G_i
//   nu-formulations: 11 / 13 = the same two maxima over the positive class, 14 / 12 over the negative class
pub open spec fn cand(s: &SolverV, i: int, which: int) -> Option<int> {
    let g = s.gradient@[i].v@; let y = s.targets@[i]; let up = !s.alpha@[i].upper; let low = !s.alpha@[i].lower;
    if which == 1 { if y { if up { Some(-g) } else { None } } else { if low { Some(g) } else { None } } }
    else if which == 2 { if y { if low { Some(g) } else { None } } else { if up { Some(-g) } else { None } } }
    else if which == 11 { if y && up { Some(-g) } else { None } }
    else if which == 13 { if y && low { Some(g) } else { None } }
    else if which == 14 { if !y && up { Some(-g) } else { None } }
    else { if !y && low { Some(g) } else { None } }
}
// (value, index) is the maximum of the candidates among the first n variables: an upper bound of all of them, attained at `index`
// (index -1 and -infinity when there is no candidate); with `>=` the LAST maximiser wins, with `>` the first
pub open spec fn best_of(m: (FTok, isize), s: &SolverV, n: int, which: int, strict: bool) -> bool {
    &&& forall|i: int| 0 <= i < n ==> (#[trigger] cand(s, i, which)) is Some ==> cand(s, i, which).unwrap() <= m.0.v@
    &&& m.1 == -1 ==> m.0.v@ == neg_inf() && forall|i: int| 0 <= i < n ==> (#[trigger] cand(s, i, which)) is None
    &&& m.1 != -1 ==> 0 <= m.1 < n && cand(s, m.1 as int, which) == Some(m.0.v@)
}
impl SolverV {
    pub open spec fn wf(&self) -> bool {
        self.nact <= self.targets@.len() && self.targets@.len() == self.alpha@.len() && self.alpha@.len() == self.gradient@.len() && self.targets@.len() <= isize::MAX
        && forall|i: int| 0 <= i < self.gradient@.len() ==> neg_inf() < #[trigger] self.gradient@[i].v@ && neg_inf() < -self.gradient@[i].v@      // finite gradients
    }
    pub fn nactive(&self) -> (r: usize) ensures r == self.nact { self.nact }

    // ---- max_violating_pair, body extracted from /repo on every run ----
    // C13 (KKT up to the solver tolerance): the solver stops when gmax1 + gmax2 < eps, which is the KKT condition m(alpha) - M(alpha) < eps
    // exactly if gmax1 = max_{I_up} -y_i G_i and gmax2 = max_{I_low} y_i G_i over the ACTIVE variables
    pub fn max_violating_pair(&self) -> (r: ((FTok, isize), (FTok, isize)))
        requires self.wf(),
        ensures best_of(r.0, self, self.nact as int, 1, false), best_of(r.1, self, self.nact as int, 2, false),
    {
/*@MVP*/
    }
    // ---- max_violating_pair_nu: the same per class ----
    pub fn max_violating_pair_nu(&self) -> (r: ((FTok, isize), (FTok, isize), (FTok, isize), (FTok, isize)))
        requires self.wf(),
        ensures best_of(r.0, self, self.nact as int, 11, true), best_of(r.1, self, self.nact as int, 12, true),
            best_of(r.2, self, self.nact as int, 13, true), best_of(r.3, self, self.nact as int, 14, true),
    {
/*@MVPNU*/
    }
    pub fn vacuity_guard_pair(&self) -> (r: ((FTok, isize), (FTok, isize)))
        requires self.wf(),
        ensures false,
    {
        self.max_violating_pair()
    }
}
} // verus!
fn main() {}
