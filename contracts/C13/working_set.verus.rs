//! property: C13
//! unit: V-C13-working-set
//! tier: quick
//! fns: linfa_svm::solver_smo::SolverState::select_working_set (C-formulations: the second index, the stopping decision)
//@ extract WS from algorithms/linfa-svm/src/solver_smo.rs anchor "let (gmax, gmax2) = self.max_violating_pair();" until "    /// Select optimal working set" after "pub fn select_working_set(&self) -> (usize, usize, bool) {"
//@ rewrite WS "(F::infinity(), -1)" => "(ObjTok::infinity(), -1)"
//@ rewrite WS "for (j, dist_ij) in dist_i.into_iter().enumerate().take(self.nactive()) {" => "for j in 0..self.nactive() { let dist_ij = dist_i[j];   /* for (j, dist_ij) in dist_i.into_iter().enumerate().take(self.nactive()) */"
//@ rewrite? WS "gmax.0 + self.gradient[j]" => "gmax.0.plus(self.gradient[j])"
//@ rewrite? WS "gmax.0 - self.gradient[j]" => "gmax.0.minus(self.gradient[j])"
//@ rewrite WS "grad_diff > F::zero()" => "grad_diff.is_positive()"
//@ rewrite WS "let quad_coef = self.kernel.self_distance(i)" => "let quad_coef = quad_coef_abs(i, j, dist_ij,   /* float arithmetic: self.kernel.self_distance(i)"
//@ rewrite WS "- F::cast(2.0) * self.target(i) * dist_ij;" => "- 2 * y_i * Q_ij */ false);"
//@ rewrite WS "+ F::cast(2.0) * self.target(i) * dist_ij;" => "+ 2 * y_i * Q_ij */ true);"
//@ rewrite WS "let obj_diff = if quad_coef > F::zero() {" => "let obj_diff = obj_diff_abs(grad_diff, quad_coef);   /* float arithmetic: if quad_coef > 0 {"
//@ rewrite WS "};" => "} */"
//@ rewrite WS "obj_diff <= obj_diff_min.0" => "obj_diff.le_tok(obj_diff_min.0)"
//@ rewrite WS "gmax.0 + gmax2.0 < self.params.eps" => "gmax.0.plus(gmax2.0).lt_eps(&self.eps)"
//@ insert WS before-brace "for j in 0..self.nactive() " : invariant self.wf(), gmax.1 != -1, 0 <= gmax.1 < self.nact, dist_i@.len() >= self.nact, gmax.0.v@ == spec_mvp(self).0, (obj_diff_min.1 == -1 ==> obj_diff_min.0.inf@ && forall|jj: int| 0 <= jj < j ==> !#[trigger] second_ok(self, gmax.0.v@, jj)), (obj_diff_min.1 != -1 ==> 0 <= obj_diff_min.1 < j && second_ok(self, gmax.0.v@, obj_diff_min.1 as int)),
//@ expect-fail vacuity_guard_ws
use vstd::prelude::*;
verus! {
#[derive(Clone, Copy)]
pub struct FTok { pub v: Ghost<int> }                                    // floats as mathematical numbers (no NaN; +, - exact): ASSUMPTION
pub uninterp spec fn neg_inf() -> int;
pub uninterp spec fn spec_lt_eps(v: int) -> bool;                        // v < eps
pub struct EpsTok;
impl FTok {
    #[verifier::external_body] pub fn plus(self, o: FTok) -> (r: FTok) ensures r.v@ == self.v@ + o.v@ { unimplemented!() }
    #[verifier::external_body] pub fn minus(self, o: FTok) -> (r: FTok) ensures r.v@ == self.v@ - o.v@ { unimplemented!() }
    #[verifier::external_body] pub fn is_positive(self) -> (r: bool) ensures r == (self.v@ > 0) { unimplemented!() }
    #[verifier::external_body] pub fn lt_eps(self, e: &EpsTok) -> (r: bool) ensures r == spec_lt_eps(self.v@) { unimplemented!() }
}
#[derive(Clone, Copy)]
pub struct DTok;
#[derive(Clone, Copy)]
pub struct ObjTok { pub inf: Ghost<bool> }
impl ObjTok {
    #[verifier::external_body] pub fn infinity() -> (r: ObjTok) ensures r.inf@ { unimplemented!() }
    // `<=` between objective decreases: arbitrary (which admissible j wins is not part of C13), except that every non-NaN value is <= +infinity
    #[verifier::external_body] pub fn le_tok(self, o: ObjTok) -> (r: bool) ensures o.inf@ ==> r { unimplemented!() }
}
pub struct QuadTok;
#[verifier::external_body] pub fn quad_coef_abs(i: usize, j: usize, d: DTok, plus: bool) -> (r: QuadTok) { unimplemented!() }
#[verifier::external_body] pub fn obj_diff_abs(g: FTok, q: QuadTok) -> (r: ObjTok) ensures !r.inf@ { unimplemented!() }     // -(g^2)/q with q > 0 or 1e-10: finite or -inf, never +inf (ASSUMED: no NaN)
pub struct AlphaV { pub upper: bool, pub lower: bool }
impl AlphaV {
    pub fn reached_upper(&self) -> (r: bool) ensures r == self.upper { self.upper }
    pub fn reached_lower(&self) -> (r: bool) ensures r == self.lower { self.lower }
}
pub struct KernelV { pub n: Ghost<int> }
impl KernelV { #[verifier::external_body] pub fn distances(&self, idx: usize, length: usize) -> (r: Vec<DTok>) ensures r@.len() == length { unimplemented!() } }   // V-C13 kernel contract: K-c13_permutable_kernel_*
pub struct SolverV { pub targets: Vec<bool>, pub alpha: Vec<AlphaV>, pub gradient: Vec<FTok>, pub nact: usize, pub kernel: KernelV, pub eps: EpsTok }
// j is in I_low and forms a violating pair with the first index: -y_i G_i + y_j G_j > 0, i.e. gmax + G_j > 0 (y_j = +1) resp. gmax - G_j > 0 (y_j = -1)
pub open spec fn second_ok(s: &SolverV, gmax: int, j: int) -> bool {
    0 <= j < s.nact && (if s.targets@[j] { !s.alpha@[j].lower && gmax + s.gradient@[j].v@ > 0 } else { !s.alpha@[j].upper && gmax - s.gradient@[j].v@ > 0 })
}
pub uninterp spec fn spec_mvp(s: &SolverV) -> (int, int, int);      // (gmax, its index, gmax2) as returned by max_violating_pair
impl SolverV {
    pub open spec fn wf(&self) -> bool {
        self.nact <= self.targets@.len() && self.targets@.len() == self.alpha@.len() && self.alpha@.len() == self.gradient@.len() && self.targets@.len() <= isize::MAX
    }
    pub fn nactive(&self) -> (r: usize) ensures r == self.nact { self.nact }
    pub fn ntotal(&self) -> (r: usize) requires self.wf(), ensures r == self.targets@.len() { self.targets.len() }
    // proved by V-C13-violating-pair; only what this unit needs is restated
    #[verifier::external_body]
    pub fn max_violating_pair(&self) -> (r: ((FTok, isize), (FTok, isize)))
        requires self.wf(),
        ensures r.0.1 == -1 || 0 <= r.0.1 < self.nact, r.0.0.v@ == spec_mvp(self).0, r.0.1 == spec_mvp(self).1, r.1.0.v@ == spec_mvp(self).2,
    { unimplemented!() }

    // ---- select_working_set (C-formulations) after the nu dispatch, extracted from /repo on every run ----
    // C13: either the solver is told to stop - exactly when m(alpha) - M(alpha) = gmax + gmax2 < eps or no violating partner exists - or it
    // gets a pair (i, j) of ACTIVE variables where i is the first index of the maximal violating pair and j is in I_low with
    // -y_i G_i + y_j G_j > 0 (so the SMO step on (i, j) decreases the objective)
    pub fn select_working_set(&self) -> (r: (usize, usize, bool))
        requires self.wf(),
        ensures
            !r.2 ==> r.0 < self.nact && r.0 == spec_mvp(self).1 && second_ok(self, spec_mvp(self).0, r.1 as int) && !spec_lt_eps(spec_mvp(self).0 + spec_mvp(self).2),
            r.2 ==> spec_lt_eps(spec_mvp(self).0 + spec_mvp(self).2) || spec_mvp(self).1 == -1 || forall|j: int| 0 <= j < self.nact ==> !#[trigger] second_ok(self, spec_mvp(self).0, j),
    {
/*@WS*/
    pub fn vacuity_guard_ws(&self) -> (r: (usize, usize, bool))
        requires self.wf(),
        ensures false,
    {
        (0, 0, true)
    }
}
} // verus!
fn main() {}
