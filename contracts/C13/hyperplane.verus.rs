//! property: C13
//! unit: V-C13-hyperplane
//! tier: quick
//! fns: linfa_svm::solver_smo::SolverState::solve (accumulation loop of the linear separating hyperplane), linfa_svm::solver_smo::SolverState::target
//@ extract STRUCT from algorithms/linfa-svm/src/solver_smo.rs anchor "pub struct SolverState<'a, F: Float, K: Permutable<F>> {" body
//@ rewrite STRUCT "///" => "//"
//@ rewrite STRUCT "Vec<F>" => "Vec<FTok>"
//@ rewrite STRUCT "Vec<Alpha<F>>" => "Vec<AlphaTok>"
//@ rewrite STRUCT "r: F," => "r: FTok,"
//@ rewrite STRUCT "kernel: K," => "kernel: KernelV,"
//@ drop STRUCT from "dataset: ArrayView2<'a, F>," through "dataset: ArrayView2<'a, F>," as "    /* dropped field: dataset */"
//@ drop STRUCT from "params: SolverParams<F>," through "params: SolverParams<F>," as "    /* dropped field: params */"
//@ drop STRUCT from "phantom: PhantomData<&'a K>," through "phantom: PhantomData<&'a K>," as "    /* dropped field: phantom */"
//@ extract TARGET from algorithms/linfa-svm/src/solver_smo.rs anchor "pub fn target(&self, idx: usize) -> F {" body
//@ rewrite TARGET "-F::one()" => "FTok::neg_one()"
//@ rewrite TARGET "F::one()" => "FTok::one()"
//@ extract HYPER from algorithms/linfa-svm/src/solver_smo.rs anchor "for (i, elm) in self.dataset.outer_iter().enumerate() {" block
//@ rewrite HYPER "for (i, elm) in self.dataset.outer_iter().enumerate() {" => "for i in 0..nrows {   /* rows of the training matrix in order (ndarray outer_iter + enumerate) */"
//@ rewrite? HYPER "-F::one()" => "FTok::neg_one()"
//@ rewrite? HYPER "F::one()" => "FTok::one()"
//@ rewrite HYPER " * alpha[i], &elm);" => ", alpha[i], i);"
//@ rewrite HYPER "tmp.scaled_add(" => "tmp.scaled_add_log("
//@ insert HYPER before-brace "for i in 0..nrows " : invariant self.wf(), nrows <= self.n(), alpha@.len() >= nrows, orig_targets@.len() == self.n(), (forall|k: int| 0 <= k < self.n() ==> orig_targets@[k] == orig.targets@[k]), aligned(self.targets@, orig.targets@, self.active_set@), tmp.signs@.len() == i, tmp.alphas@.len() == i, tmp.rows@.len() == i, (forall|j: int| 0 <= j < i ==> tmp.signs@[j] == sign_tok(orig.targets@[j]) && tmp.alphas@[j] == alpha@[j] && tmp.rows@[j] == j),
//@ expect-fail vacuity_guard_hyper
use vstd::prelude::*;
verus! {
#[derive(Clone, Copy)]
pub struct FTok { pub id: u64 }
impl FTok {
    pub fn one() -> (r: FTok) ensures r == (FTok { id: 1 }) { FTok { id: 1 } }           // F::one()
    pub fn neg_one() -> (r: FTok) ensures r == (FTok { id: 2 }) { FTok { id: 2 } }       // -F::one()
}
pub open spec fn sign_tok(positive: bool) -> FTok { if positive { FTok { id: 1 } } else { FTok { id: 2 } } }
// ghost log of what the linear-hyperplane accumulation `tmp.scaled_add(sign * alpha, row)` is fed with
pub struct HyperLog { pub signs: Ghost<Seq<FTok>>, pub alphas: Ghost<Seq<FTok>>, pub rows: Ghost<Seq<int>> }
impl HyperLog {
    #[verifier::external_body]
    pub fn scaled_add_log(&mut self, sign: FTok, a: FTok, row: usize)
        ensures final(self).signs@ == old(self).signs@.push(sign), final(self).alphas@ == old(self).alphas@.push(a), final(self).rows@ == old(self).rows@.push(row as int),
    { unimplemented!() }
}
pub struct AlphaTok { pub id: u64 }
pub struct KernelV { pub kernel_indices: Vec<usize> }

pub open spec fn aligned<T>(cur: Seq<T>, orig: Seq<T>, active_set: Seq<usize>) -> bool {
    cur.len() == orig.len() && active_set.len() == orig.len()
    && forall|pos: int| 0 <= pos < cur.len() ==> 0 <= #[trigger] active_set[pos] < orig.len() && cur[pos] == orig[active_set[pos] as int]
}
pub open spec fn is_perm(a: Seq<usize>) -> bool {
    (forall|p: int| 0 <= p < a.len() ==> 0 <= #[trigger] a[p] < a.len())
    && (forall|p: int, q: int| 0 <= p < a.len() && 0 <= q < a.len() && p != q ==> a[p] != a[q])
}

pub struct SolverStateV {
/*@STRUCT*/
}

impl SolverStateV {
    spec fn n(&self) -> int { self.alpha@.len() as int }
    spec fn wf(&self) -> bool {
        self.gradient@.len() == self.n() && self.gradient_fixed@.len() == self.n() && self.active_set@.len() == self.n()
        && self.p@.len() == self.n() && self.targets@.len() == self.n() && self.bounds@.len() == self.n()
        && self.kernel.kernel_indices@.len() == self.n()
    }
    // the only alignment the hyperplane needs: position pos holds the target of ORIGINAL sample active_set[pos]
    spec fn all_aligned(&self, orig: &SolverStateV) -> bool { aligned(self.targets@, orig.targets@, self.active_set@) }

    // ---- SolverState::target, body extracted ----
    fn target(&self, idx: usize) -> (r: FTok)
        requires self.wf(), idx < self.n(),
        ensures r == sign_tok(self.targets@[idx as int]),
    {
/*@TARGET*/
    }

    // ---- solve(): accumulation loop of the linear separating hyperplane, extracted ----
    // contract (C13, "the decision value equals sum_i alpha_i*K(x_i, x) - rho computed from the published coefficients"): training
    // row i enters the hyperplane with the published coefficient of sample i and the target sign of ORIGINAL sample i
    fn hyperplane_terms(&self, Ghost(orig): Ghost<SolverStateV>, alpha: &Vec<FTok>, orig_targets: &Vec<bool>, nrows: usize) -> (tmp: HyperLog)
        requires self.wf(), is_perm(self.active_set@), self.all_aligned(&orig), nrows <= self.n(), alpha@.len() >= nrows,
            orig_targets@.len() == self.n(), forall|k: int| 0 <= k < self.n() ==> orig_targets@[k] == orig.targets@[k],
        ensures tmp.signs@.len() == nrows, tmp.alphas@.len() == nrows, tmp.rows@.len() == nrows,
            forall|j: int| 0 <= j < nrows ==> tmp.signs@[j] == sign_tok(orig.targets@[j]) && tmp.alphas@[j] == alpha@[j] && tmp.rows@[j] == j,
    {
        let mut tmp = HyperLog { signs: Ghost(Seq::empty()), alphas: Ghost(Seq::empty()), rows: Ghost(Seq::empty()) };
/*@HYPER*/
        tmp
    }
    fn vacuity_guard_hyper(&self, Ghost(orig): Ghost<SolverStateV>, alpha: &Vec<FTok>, orig_targets: &Vec<bool>, nrows: usize)
        requires self.wf(), is_perm(self.active_set@), self.all_aligned(&orig), nrows <= self.n(), alpha@.len() >= nrows,
            orig_targets@.len() == self.n(), forall|k: int| 0 <= k < self.n() ==> orig_targets@[k] == orig.targets@[k],
        ensures false,
    {
    }
}
} // verus!
fn main() {}
