//! property: C13
//! unit: V-C13-step-box
//! tier: quick
//! fns: linfa_svm::solver_smo::SolverState::update (the two-variable step: move along the constraint line, clip back into the box)
//@ extract CLIP from algorithms/linfa-svm/src/solver_smo.rs anchor "if self.targets[i] != self.targets[j] {" block after "pub fn update(&mut self, working_set: (usize, usize)) {"
//@ rewrite CLIP "self.targets[i] != self.targets[j]" => "targets_differ   /* self.targets[i] != self.targets[j] */"
//@ rewrite CLIP "let mut quad_coef = self.kernel.self_distance(i)" => "/* float arithmetic (curvature and step length), dropped: let mut quad_coef = self.kernel.self_distance(i)"
//@ rewrite CLIP "let delta = -(self.gradient[i] + self.gradient[j]) / quad_coef;" => "let delta = -(G_i + G_j) / quad_coef; */ let delta = delta_in;"
//@ rewrite CLIP "let delta = (self.gradient[i] - self.gradient[j]) / quad_coef;" => "let delta = (G_i - G_j) / quad_coef; */ let delta = delta_in;"
//@ rewrite CLIP "self.alpha[i].val()" => "ai"
//@ rewrite CLIP "self.alpha[j].val()" => "aj"
//@ rewrite CLIP "self.alpha[i].value" => "ai"
//@ rewrite CLIP "self.alpha[j].value" => "aj"
//@ rewrite CLIP "F::zero()" => "0"
//@ expect-fail vacuity_guard_step
use vstd::prelude::*;
verus! {
// Coefficients, bounds and the step are MATHEMATICAL numbers here (i128 with magnitudes far below overflow): the clipping logic is exact
// over the reals; in IEEE arithmetic each `+`/`-` may round, so the box can be missed by one ulp (DESIGN section 10) - ASSUMPTION listed.
pub open spec fn small(x: i128) -> bool { -0x1_0000_0000_0000_0000_0000i128 <= x <= 0x1_0000_0000_0000_0000_0000i128 }

// ---- the branch of `update` that moves (alpha_i, alpha_j) and clips, extracted from /repo on every run; alpha[i] / alpha[j] are the
// locals ai / aj (two different variables: V-C13-working-set) ----
// C13 "published dual coefficients are feasible (box bounds per class weight, equality constraints)": one SMO step keeps both variables
// inside their boxes and keeps y_i alpha_i + y_j alpha_j - whatever the step length is
pub fn step(targets_differ: bool, old_ai: i128, old_aj: i128, bound_i: i128, bound_j: i128, delta_in: i128) -> (r: (i128, i128))
    requires 0 <= old_ai <= bound_i, 0 <= old_aj <= bound_j, small(bound_i), small(bound_j), small(delta_in),
    ensures 0 <= r.0 <= bound_i, 0 <= r.1 <= bound_j,
        targets_differ ==> r.0 - r.1 == old_ai - old_aj,            // y_i != y_j: alpha_i - alpha_j is the conserved quantity
        !targets_differ ==> r.0 + r.1 == old_ai + old_aj,           // y_i == y_j: alpha_i + alpha_j
{
    let mut ai = old_ai;
    let mut aj = old_aj;
/*@CLIP*/
    (ai, aj)
}
pub fn vacuity_guard_step(targets_differ: bool, old_ai: i128, old_aj: i128, bound_i: i128, bound_j: i128, delta_in: i128) -> (r: (i128, i128))
    requires 0 <= old_ai <= bound_i, 0 <= old_aj <= bound_j, small(bound_i), small(bound_j), small(delta_in),
    ensures false,
{
    (old_ai, old_aj)
}
} // verus!
fn main() {}
