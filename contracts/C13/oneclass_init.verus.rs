//! property: C13
//! unit: V-C13-oneclass-start
//! tier: quick
//! fns: linfa_svm::classification::fit_one_class (the feasible starting point handed to the solver)
//@ extract INIT from algorithms/linfa-svm/src/classification.rs anchor "let init_alpha = (0..size)" until ".collect::<Vec<_>>();"
//@ rewrite INIT "let init_alpha = (0..size)" => "let init_alpha_x   /* element x of (0..size).map(|x| ..).collect() */"
//@ rewrite INIT ".map(|x| " => " = elem_of("
//@ rewrite? INIT "x.cmp(&n)" => "cmp_abs(x, n)"
//@ rewrite? INIT "F::one()" => "FTok::one()"
//@ rewrite? INIT "F::zero()" => "FTok::zero()"
//@ rewrite? INIT "nu * F::cast(size) - F::cast(x)" => "nu.times_minus(size, x)   /* nu * F::cast(size) - F::cast(x) */"
//@ expect-fail vacuity_guard_start
use vstd::prelude::*;
verus! {
pub enum Ordering { Less, Equal, Greater }
pub fn cmp_abs(a: usize, b: usize) -> (r: Ordering)                       // usize::cmp
    ensures (r is Less) == (a < b), (r is Equal) == (a == b), (r is Greater) == (a > b),
{ if a < b { Ordering::Less } else if a == b { Ordering::Equal } else { Ordering::Greater } }
pub enum Term { One, Zero, NuTimesSizeMinus(int) }                         // 1, 0, nu * l - x
pub struct FTok { pub t: Ghost<Term> }
impl FTok {
    pub fn one() -> (r: FTok) ensures r.t@ == Term::One { FTok { t: Ghost(Term::One) } }
    pub fn zero() -> (r: FTok) ensures r.t@ == Term::Zero { FTok { t: Ghost(Term::Zero) } }
}
pub struct NuTok;
impl NuTok {
    #[verifier::external_body]
    pub fn times_minus(&self, size: usize, x: usize) -> (r: FTok) ensures r.t@ == Term::NuTimesSizeMinus(x as int) { unimplemented!() }
}
pub fn elem_of(v: FTok) -> (r: FTok) ensures r.t@ == v.t@ { v }

// C13 (one-class): the dual is feasible only if sum_i alpha_i = nu * l with 0 <= alpha_i <= 1, and SMO keeps the sum it starts from.
// With n = floor(nu * l) (computed just above the extracted text) the start point must be: 1 for the first n variables, the fractional
// rest nu * l - n for variable n, 0 afterwards - which sums to n + (nu * l - n) = nu * l.
pub fn init_alpha_at(x: usize, n: usize, size: usize, nu: &NuTok) -> (r: FTok)
    requires x < size, n <= size,
    ensures x < n ==> r.t@ == Term::One, x == n ==> r.t@ == Term::NuTimesSizeMinus(n as int), x > n ==> r.t@ == Term::Zero,
{
/*@INIT*/
    ;
    init_alpha_x
}
pub fn vacuity_guard_start(x: usize, n: usize, size: usize, nu: &NuTok) -> (r: FTok)
    requires x < size, n <= size,
    ensures false,
{
    FTok::zero()
}
} // verus!
fn main() {}
