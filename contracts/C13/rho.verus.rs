//! property: C13
//! unit: V-C13-rho
//! tier: quick
//! fns: linfa_svm::solver_smo::SolverState::calculate_rho (C-formulations), linfa_svm::solver_smo::SolverState::calculate_rho_nu (the two class thresholds), linfa_svm::solver_smo::SolverState::threshold_between
//@ extract TB from algorithms/linfa-svm/src/solver_smo.rs anchor "fn threshold_between(lb: F, ub: F) -> F {" body
//@ rewrite TB "lb.is_finite()" => "is_finite_abs(lb)"
//@ rewrite TB "ub.is_finite()" => "is_finite_abs(ub)"
//@ rewrite TB "/ F::cast(2.0)" => "/ 2"
//@ extract RHO from algorithms/linfa-svm/src/solver_smo.rs anchor "let mut nfree = 0;" until "    /// Threshold for a group of variables without a free one" after "pub fn calculate_rho(&mut self) -> F {"
//@ rewrite RHO "let mut nfree = 0;" => "let mut nfree: usize = 0;"
//@ rewrite RHO "let mut sum_free = F::zero();" => "let mut sum_free: i128 = 0;"
//@ rewrite RHO "let mut ub = F::infinity();" => "let mut ub: i128 = INF;"
//@ rewrite RHO "let mut lb = -F::infinity();" => "let mut lb: i128 = -INF;"
//@ rewrite RHO "let yg = self.target(i) * self.gradient[i];" => "let yg = times_sign(self.target(i), self.gradient[i]);   /* self.target(i) * self.gradient[i] */"
//@ rewrite RHO "F::max(" => "max_abs("
//@ rewrite RHO "F::min(" => "min_abs("
//@ rewrite RHO "sum_free += yg;" => "sum_free = add_free(sum_free, yg);"
//@ rewrite RHO "sum_free / F::cast(nfree)" => "mean_abs(sum_free, nfree)   /* sum_free / F::cast(nfree) */"
//@ rewrite RHO "Self::threshold_between(lb, ub)" => "threshold_between(lb, ub)"
//@ insert RHO before-brace "for i in 0..self.nactive() " : invariant self.wf(), nfree <= i, (nfree == 0 ==> bounds_ok(self, i as int, lb, ub)), ((forall|t: int| 0 <= t < i ==> #[trigger] self.alpha@[t].upper || self.alpha@[t].lower) ==> nfree == 0), -INF <= lb < INF, -INF < ub <= INF,
//@ insert RHO before "if nfree > 0 {" : proof { if nfree == 0 && self.nact >= 1 { assert(bounds_ok(self, self.nact as int, lb, ub)); assert(fin(self.gradient@[0])); assert(if self.alpha@[0].upper == self.targets@[0] { lb >= yg_of(self, 0) } else { ub <= yg_of(self, 0) }); assert(-INF < yg_of(self, 0) < INF); assert(lb != -INF || ub != INF); } }
//@ extract RHONU from algorithms/linfa-svm/src/solver_smo.rs anchor "let (mut nfree1, mut nfree2) = (0, 0);" until "self.r = (r1 + r2) / F::cast(2.0);" after "pub fn calculate_rho_nu(&mut self) -> F {"
//@ rewrite RHONU "let (mut nfree1, mut nfree2) = (0, 0);" => "let (mut nfree1, mut nfree2): (usize, usize) = (0, 0);"
//@ rewrite RHONU "let (mut sum_free1, mut sum_free2) = (F::zero(), F::zero());" => "let (mut sum_free1, mut sum_free2): (i128, i128) = (0, 0);"
//@ rewrite RHONU "let (mut ub1, mut ub2) = (F::infinity(), F::infinity());" => "let (mut ub1, mut ub2): (i128, i128) = (INF, INF);"
//@ rewrite RHONU "let (mut lb1, mut lb2) = (-F::infinity(), -F::infinity());" => "let (mut lb1, mut lb2): (i128, i128) = (-INF, -INF);"
//@ rewrite RHONU "F::max(" => "max_abs("
//@ rewrite RHONU "F::min(" => "min_abs("
//@ rewrite RHONU "sum_free1 += self.gradient[i];" => "sum_free1 = add_free(sum_free1, self.gradient[i]);"
//@ rewrite RHONU "sum_free2 += self.gradient[i];" => "sum_free2 = add_free(sum_free2, self.gradient[i]);"
//@ rewrite RHONU "sum_free1 / F::cast(nfree1)" => "mean_abs(sum_free1, nfree1)"
//@ rewrite RHONU "sum_free2 / F::cast(nfree2)" => "mean_abs(sum_free2, nfree2)"
//@ rewrite RHONU "Self::threshold_between(" => "threshold_between("
//@ insert RHONU before-brace "for i in 0..self.nactive() " : invariant self.wf(), (nfree1 == 0 ==> class_bounds_ok(self, i as int, true, lb1, ub1)), (nfree2 == 0 ==> class_bounds_ok(self, i as int, false, lb2, ub2)), -INF <= lb1 < INF, -INF < ub1 <= INF, -INF <= lb2 < INF, -INF < ub2 <= INF, nfree1 <= i, nfree2 <= i, ((forall|t: int| 0 <= t < i && self.targets@[t] ==> #[trigger] self.alpha@[t].upper || self.alpha@[t].lower) ==> nfree1 == 0), ((forall|t: int| 0 <= t < i && !self.targets@[t] ==> #[trigger] self.alpha@[t].upper || self.alpha@[t].lower) ==> nfree2 == 0),
//@ expect-fail vacuity_guard_rho
use vstd::prelude::*;
verus! {
// gradients as mathematical numbers of bounded magnitude; +-infinity are two sentinels beyond every gradient (ASSUMPTION: no NaN)
pub const INF: i128 = 0x1_0000_0000_0000_0000_0000_0000i128;
pub open spec fn fin(x: i128) -> bool { -0x1_0000_0000_0000_0000i128 <= x <= 0x1_0000_0000_0000_0000i128 }
pub fn is_finite_abs(x: i128) -> (r: bool) ensures r == (x != INF && x != -INF) { x != INF && x != -INF }
pub fn max_abs(a: i128, b: i128) -> (r: i128) ensures r == (if a >= b { a } else { b }) { if a >= b { a } else { b } }
pub fn min_abs(a: i128, b: i128) -> (r: i128) ensures r == (if a <= b { a } else { b }) { if a <= b { a } else { b } }
pub fn times_sign(s: i128, g: i128) -> (r: i128) requires s == 1 || s == -1, fin(g), ensures r as int == (if s == 1 { g as int } else { -(g as int) }) { if s == 1 { g } else { -g } }
#[verifier::external_body] pub fn add_free(s: i128, y: i128) -> (r: i128) { unimplemented!() }           // running sum of the free y_i G_i (its value is not constrained here)
#[verifier::external_body] pub fn mean_abs(s: i128, n: usize) -> (r: i128) { unimplemented!() }
pub struct AlphaV { pub upper: bool, pub lower: bool }
impl AlphaV {
    pub fn reached_upper(&self) -> (r: bool) ensures r == self.upper { self.upper }
    pub fn reached_lower(&self) -> (r: bool) ensures r == self.lower { self.lower }
}
// ---- threshold_between, body extracted ----
pub fn threshold_between(lb: i128, ub: i128) -> (r: i128)
    requires -INF <= lb < INF, -INF < ub <= INF, lb == -INF || fin(lb), ub == INF || fin(ub),
    ensures lb <= ub ==> lb <= r <= ub, (lb != -INF || ub != INF) && lb <= ub ==> r != INF && r != -INF,
{
/*@TB*/
}
pub struct SolverV { pub targets: Vec<bool>, pub alpha: Vec<AlphaV>, pub gradient: Vec<i128>, pub nact: usize }
pub open spec fn yg_of(s: &SolverV, i: int) -> int { if s.targets@[i] { s.gradient@[i] as int } else { -(s.gradient@[i] as int) } }
// the margin conditions of the first n variables, none of them free, pin the threshold into [lb, ub]:
//   y=+1 at its bound or y=-1 at zero: rho >= y G;   y=+1 at zero or y=-1 at its bound: rho <= y G      (C13, see K-c13_rho_*)
pub open spec fn bounds_ok(s: &SolverV, n: int, lb: i128, ub: i128) -> bool {
    &&& (lb == -INF || fin(lb)) && (ub == INF || fin(ub))
    &&& forall|i: int| 0 <= i < n ==> (s.alpha@[i].upper || s.alpha@[i].lower)
    &&& forall|i: int| 0 <= i < n ==> (if (#[trigger] s.alpha@[i]).upper == s.targets@[i] { lb >= yg_of(s, i) } else { ub <= yg_of(s, i) })
    &&& (lb != -INF ==> exists|i: int| 0 <= i < n && (#[trigger] s.alpha@[i]).upper == s.targets@[i] && lb == yg_of(s, i))
    &&& (ub != INF ==> exists|i: int| 0 <= i < n && (#[trigger] s.alpha@[i]).upper != s.targets@[i] && ub == yg_of(s, i))
}
// nu-formulations, class by class: G_i <= r_class for a variable at its bound, G_i >= r_class for a variable at zero
pub open spec fn class_bounds_ok(s: &SolverV, n: int, pos: bool, lb: i128, ub: i128) -> bool {
    &&& (lb == -INF || fin(lb)) && (ub == INF || fin(ub))
    &&& forall|i: int| 0 <= i < n && s.targets@[i] == pos ==> ((#[trigger] s.alpha@[i]).upper || s.alpha@[i].lower) && (if s.alpha@[i].upper { lb >= s.gradient@[i] } else { ub <= s.gradient@[i] })
}
impl SolverV {
    pub open spec fn wf(&self) -> bool {
        self.nact <= self.targets@.len() && self.targets@.len() == self.alpha@.len() && self.alpha@.len() == self.gradient@.len()
        && (forall|i: int| 0 <= i < self.gradient@.len() ==> fin(#[trigger] self.gradient@[i]))
        && (forall|i: int| 0 <= i < self.alpha@.len() ==> !((#[trigger] self.alpha@[i]).upper && self.alpha@[i].lower))       // bound > 0: a variable is not at zero and at its bound at once
    }
    pub fn nactive(&self) -> (r: usize) ensures r == self.nact { self.nact }
    pub fn target(&self, idx: usize) -> (r: i128) requires idx < self.targets@.len(), ensures r == (if self.targets@[idx as int] { 1i128 } else { -1i128 }) { if self.targets[idx] { 1 } else { -1 } }

    // ---- calculate_rho after the nu dispatch, extracted from /repo on every run ----
    // C13 ("samples with zero coefficient lie on or outside the margin ... bounded ones on or inside it"): when no active variable is free the
    // published threshold satisfies every margin condition that can be satisfied at all (lb <= rho <= ub whenever lb <= ub), and it is a
    // NUMBER as soon as one side is pinned
    pub fn calculate_rho(&self) -> (r: i128)
        requires self.wf(),
        ensures (forall|i: int| 0 <= i < self.nact ==> #[trigger] self.alpha@[i].upper || self.alpha@[i].lower) && self.nact >= 1 ==> exists|lb: i128, ub: i128| #[trigger] bounds_ok(self, self.nact as int, lb, ub) && (lb <= ub ==> lb <= r <= ub && r != INF && r != -INF),
    {
/*@RHO*/
    // ---- calculate_rho_nu up to the two class thresholds r1 (class +1) and r2 (class -1), extracted from /repo on every run ----
    // (the published pair is rho = (r1 - r2)/2 and r = (r1 + r2)/2: K-c13_rho_nu_*)
    pub fn class_thresholds(&self) -> (r: (i128, i128))
        requires self.wf(),
        ensures
            (forall|i: int| 0 <= i < self.nact && self.targets@[i] ==> #[trigger] self.alpha@[i].upper || self.alpha@[i].lower) ==> exists|lb: i128, ub: i128| #[trigger] class_bounds_ok(self, self.nact as int, true, lb, ub) && (lb <= ub ==> lb <= r.0 <= ub),
            (forall|i: int| 0 <= i < self.nact && !self.targets@[i] ==> #[trigger] self.alpha@[i].upper || self.alpha@[i].lower) ==> exists|lb: i128, ub: i128| #[trigger] class_bounds_ok(self, self.nact as int, false, lb, ub) && (lb <= ub ==> lb <= r.1 <= ub),
    {
/*@RHONU*/
        proof { if nfree1 == 0 { assert(class_bounds_ok(self, self.nact as int, true, lb1, ub1)); } if nfree2 == 0 { assert(class_bounds_ok(self, self.nact as int, false, lb2, ub2)); } }
        (r1, r2)
    }
    pub fn vacuity_guard_rho(&self) -> (r: i128)
        requires self.wf(),
        ensures false,
    {
        0
    }
}
} // verus!
fn main() {}
