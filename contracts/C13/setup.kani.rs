//! property: C13
//! attach: algorithms/linfa-svm/src/classification.rs
//! module: vk_c13_setup
// @include common/prelude.rs
use super::{fit_nu, fit_one_class};
use crate::SolverParams;
use linfa_kernel::{Kernel, KernelInner, KernelMethod};
use ndarray::{arr2, Array2};

// Equality constraints of the published coefficients, end to end through the real set-up code + SMO solver on tiny CONCRETE problems
// (CBMC executes the solver; nothing is symbolic except what is stated).  SMO never changes the constrained sums, so what is checked
// is the starting point built by fit_one_class / fit_nu:   one-class: sum_i alpha_i = nu * l, 0 <= alpha_i <= 1;
//                                                          nu-SVC: sum_{y=+1} alpha_i = sum_{y=-1} alpha_i = nu * l / 2 (before the 1/r scaling).
fn kernel2(off: f32) -> Kernel<f32> {
    Kernel { inner: KernelInner::Dense(arr2(&[[1.0, off], [off, 1.0]])), method: KernelMethod::Gaussian(1.0) }
}

// @unit class=bounded tier=quick mem=heavy bound="one-class, l=2 concrete points (Gaussian kernel matrix [[1,1/2],[1/2,1]]), nu in {1/4, 1/2, 3/4, 1}" timeout=1500 fns=linfa_svm::classification::fit_one_class
#[kani::proof]
#[kani::unwind(12)]
#[kani::stub(alloc::fmt::format, fmt_stub)]
fn c13_one_class_equality_constraint_l2() {
    let q: u8 = kani::any(); kani::assume(q >= 1 && q <= 4);
    let nu = q as f32 / 4.0;
    let ds: Array2<f32> = arr2(&[[0.0], [1.0]]);
    let m = fit_one_class(SolverParams { eps: 0.001, shrinking: false }, ds.view(), kernel2(0.5), nu);
    assert!(m.alpha.len() == 2);
    assert!(m.alpha[0] >= 0.0 && m.alpha[0] <= 1.0 && m.alpha[1] >= 0.0 && m.alpha[1] <= 1.0);
    assert!(m.alpha[0] + m.alpha[1] == nu * 2.0);             // dyadic values: exact
    kani::cover!(q == 3);
}
