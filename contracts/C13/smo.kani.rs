//! property: C13
//! attach: algorithms/linfa-svm/src/solver_smo.rs
//! module: vk_c13_smo
// @include common/prelude.rs
use crate::permutable_kernel::Permutable;
use super::{SolverParams, SolverState};
use linfa_kernel::{Kernel, KernelInner, KernelMethod};
use ndarray::Array2;

const N: usize = 3;

// contract witness for `Permutable`: tracks the permutation, distances are irrelevant for swap
struct StubKernel { k: Kernel<f32>, idx: [usize; N] }
impl Permutable<f32> for StubKernel {
    fn swap_indices(&mut self, i: usize, j: usize) { self.idx.swap(i, j); }
    fn distances(&self, _idx: usize, length: usize) -> Vec<f32> { vec![0.0; length] }
    fn self_distance(&self, _idx: usize) -> f32 { 1.0 }
    fn inner(&self) -> &Kernel<f32> { &self.k }
    fn into_inner(self) -> Kernel<f32> { self.k }
}

fn mk(alpha: [f32; N], bounds: [f32; N], targets: [bool; N], ds: &Array2<f32>) -> SolverState<'_, f32, StubKernel> {
    let k = Kernel { inner: KernelInner::Dense(Array2::zeros((N, N))), method: KernelMethod::Gaussian(1.0) };
    SolverState::new(
        alpha.to_vec(), vec![0.0; N], targets.to_vec(), ds.view(),
        StubKernel { k, idx: [0, 1, 2] }, bounds.to_vec(),
        SolverParams { eps: f32::INFINITY, shrinking: false }, false,
    )
}

// Representation invariant behind "box bounds per class weight ... with or without shrinking":
// after swap(i, j) every per-sample quantity looked up at a position belongs to the sample stored there.
// This is the replayable companion of the unbounded Verus unit V-C13-swap.
// @unit class=bounded tier=quick mem=light bound="n=3 variables, one swap, all (i,j)" timeout=600 fns=linfa_svm::solver_smo::SolverState::swap,linfa_svm::solver_smo::SolverState::bound
#[kani::proof]
#[kani::unwind(5)]
#[kani::stub(alloc::fmt::format, fmt_stub)]
fn c13_swap_keeps_bounds_aligned() {
    let bounds: [f32; N] = kani::any();
    let alpha: [f32; N] = kani::any();
    let targets: [bool; N] = kani::any();
    for i in 0..N { kani::assume(bounds[i].is_finite() && bounds[i] > 0.0 && alpha[i] >= 0.0 && alpha[i] <= bounds[i]); }
    let ds = Array2::zeros((N, 1));
    let mut s = mk(alpha, bounds, targets, &ds);
    let i: usize = kani::any(); let j: usize = kani::any();
    kani::assume(i < N && j < N);
    s.swap(i, j);
    // the sample now at position i is original sample j, and vice versa
    assert!(s.bound(i) == bounds[j]);
    assert!(s.bound(j) == bounds[i]);
    assert!(s.target(i) == if targets[j] { 1.0 } else { -1.0 });
    assert!(s.alpha[i].val() == alpha[j] && s.alpha[j].val() == alpha[i]);
    assert!(s.active_set[i] == j && s.active_set[j] == i);
    assert!(s.kernel.idx[i] == j && s.kernel.idx[j] == i);
    kani::cover!(i != j && bounds[i] != bounds[j]);
}
