//! property: C13
//! attach: algorithms/linfa-svm/src/solver_smo.rs
//! module: vk_c13_smo
// @include common/prelude.rs
use crate::permutable_kernel::Permutable;
use super::{SolverParams, SolverState};
use linfa_kernel::{Kernel, KernelInner, KernelMethod};
use ndarray::Array2;

const N: usize = 3;

// contract witness for `Permutable`: tracks the permutation, distances are irrelevant for swap
struct StubKernel { k: Kernel<f32>, idx: [usize; N] }
impl Permutable<f32> for StubKernel {
    fn swap_indices(&mut self, i: usize, j: usize) { self.idx.swap(i, j); }
    fn distances(&self, _idx: usize, length: usize) -> Vec<f32> { vec![0.0; length] }
    fn self_distance(&self, _idx: usize) -> f32 { 1.0 }
    fn inner(&self) -> &Kernel<f32> { &self.k }
    fn into_inner(self) -> Kernel<f32> { self.k }
}

fn mk(alpha: [f32; N], bounds: [f32; N], targets: [bool; N], ds: &Array2<f32>) -> SolverState<'_, f32, StubKernel> {
    let k = Kernel { inner: KernelInner::Dense(Array2::zeros((N, N))), method: KernelMethod::Gaussian(1.0) };
    SolverState::new(
        alpha.to_vec(), vec![0.0; N], targets.to_vec(), ds.view(),
        StubKernel { k, idx: [0, 1, 2] }, bounds.to_vec(),
        SolverParams { eps: f32::INFINITY, shrinking: false }, false,
    )
}

// Representation invariant behind "box bounds per class weight ... with or without shrinking":
// after swap(i, j) every per-sample quantity looked up at a position belongs to the sample stored there.
// This is the replayable companion of the unbounded Verus unit V-C13-swap.
// @unit class=bounded tier=quick mem=light bound="n=3 variables, one swap, all (i,j)" timeout=600 fns=linfa_svm::solver_smo::SolverState::swap,linfa_svm::solver_smo::SolverState::bound
#[kani::proof]
#[kani::unwind(5)]
#[kani::stub(alloc::fmt::format, fmt_stub)]
fn c13_swap_keeps_bounds_aligned() {
    let bounds: [f32; N] = kani::any();
    let alpha: [f32; N] = kani::any();
    let targets: [bool; N] = kani::any();
    for i in 0..N { kani::assume(bounds[i].is_finite() && bounds[i] > 0.0 && alpha[i] >= 0.0 && alpha[i] <= bounds[i]); }
    let ds = Array2::zeros((N, 1));
    let mut s = mk(alpha, bounds, targets, &ds);
    let i: usize = kani::any(); let j: usize = kani::any();
    kani::assume(i < N && j < N);
    s.swap(i, j);
    // the sample now at position i is original sample j, and vice versa
    assert!(s.bound(i) == bounds[j]);
    assert!(s.bound(j) == bounds[i]);
    assert!(s.target(i) == if targets[j] { 1.0 } else { -1.0 });
    assert!(s.alpha[i].val() == alpha[j] && s.alpha[j].val() == alpha[i]);
    assert!(s.active_set[i] == j && s.active_set[j] == i);
    assert!(s.kernel.idx[i] == j && s.kernel.idx[j] == i);
    kani::cover!(i != j && bounds[i] != bounds[j]);
}

// ---------------------------------------------------------------------------------------------
// Gradient bookkeeping that shrinking relies on (C13: "with or without shrinking ... KKT conditions"):
//   G_bar[k] (`gradient_fixed`) == sum over variables t sitting at their upper bound of bound_t * Q[t][k], for ALL k < l
//   after reconstruct_gradient():  gradient[k] == p[k] + sum_t alpha_t * Q[t][k]  for the inactive k >= nactive
// Kernel witness: arbitrary symmetric table of small integers (exact float arithmetic), so the units hold for
// every kernel with such entries; alphas, bounds and p are small integers as well.
struct TableKernel3 { k: Kernel<f32>, q: [[f32; N]; N] }
impl Permutable<f32> for TableKernel3 {
    fn swap_indices(&mut self, _i: usize, _j: usize) {}
    fn distances(&self, idx: usize, length: usize) -> Vec<f32> { let mut v = Vec::new(); let mut j = 0; while j < length { v.push(self.q[idx][j]); j += 1; } v }
    fn self_distance(&self, idx: usize) -> f32 { self.q[idx][idx] }
    fn inner(&self) -> &Kernel<f32> { &self.k }
    fn into_inner(self) -> Kernel<f32> { self.k }
}
fn small_int(lo: i8, hi: i8) -> f32 { let v: i8 = kani::any(); kani::assume(v >= lo && v <= hi); v as f32 }
fn sym_table() -> [[f32; N]; N] {
    let (a, b, c, d, e, f) = (small_int(1, 3), small_int(1, 3), small_int(1, 3), small_int(-2, 2), small_int(-2, 2), small_int(-2, 2));
    [[a, d, e], [d, b, f], [e, f, c]]
}
fn gbar_expected(s: &SolverState<'_, f32, TableKernel3>, q: &[[f32; N]; N], k: usize) -> f32 {
    let mut acc = 0.0f32;
    for t in 0..N { if s.alpha[t].val() >= s.bounds[t] { acc += s.bounds[t] * q[t][k]; } }
    acc
}

// @unit class=bounded tier=quick mem=heavy bound="l=3 variables, nactive=2, one SMO step on the pair (0,1), integer-valued kernel/bounds" timeout=900 fns=linfa_svm::solver_smo::SolverState::update,linfa_svm::solver_smo::SolverState::new
#[kani::proof]
#[kani::unwind(5)]
#[kani::stub(alloc::fmt::format, fmt_stub)]
fn c13_update_maintains_gbar() {
    let q = sym_table();
    let bounds = [small_int(1, 2), small_int(1, 2), small_int(1, 2)];
    // start every variable either at 0 or at its upper bound (both occur in every SMO run)
    let at_upper: [bool; N] = kani::any();
    let alpha = [if at_upper[0] { bounds[0] } else { 0.0 }, if at_upper[1] { bounds[1] } else { 0.0 }, if at_upper[2] { bounds[2] } else { 0.0 }];
    let targets: [bool; N] = kani::any();
    let p = [small_int(-2, 2), small_int(-2, 2), small_int(-2, 2)];
    let ds = Array2::zeros((N, 1));
    let k = Kernel { inner: KernelInner::Dense(Array2::zeros((N, N))), method: KernelMethod::Gaussian(1.0) };
    let mut s = SolverState::new(alpha.to_vec(), p.to_vec(), targets.to_vec(), ds.view(), TableKernel3 { k, q }, bounds.to_vec(),
        SolverParams { eps: 0.001, shrinking: true }, false);
    for kk in 0..N { assert!(s.gradient_fixed[kk] == gbar_expected(&s, &q, kk)); }   // established by new()
    s.nactive = 2;                                                                      // variable 2 is shrunk
    let was_upper = (s.alpha[0].val() >= bounds[0], s.alpha[1].val() >= bounds[1]);
    s.update((0, 1));
    let is_upper = (s.alpha[0].val() >= bounds[0], s.alpha[1].val() >= bounds[1]);
    for kk in 0..N { assert!(s.gradient_fixed[kk] == gbar_expected(&s, &q, kk)); }
    kani::cover!(was_upper.0 != is_upper.0);
    kani::cover!(was_upper.1 != is_upper.1);
}

// @unit class=bounded tier=quick mem=heavy bound="l=3 variables, nactive in {1,2}, integer-valued state" timeout=900 fns=linfa_svm::solver_smo::SolverState::reconstruct_gradient
#[kani::proof]
#[kani::unwind(5)]
#[kani::stub(alloc::fmt::format, fmt_stub)]
fn c13_reconstruct_gradient_is_full_gradient() {
    let q = sym_table();
    let bounds = [2.0f32, 2.0, 2.0];
    let alpha = [small_int(0, 2), small_int(0, 2), small_int(0, 2)];
    let targets: [bool; N] = kani::any();
    let p = [small_int(-2, 2), small_int(-2, 2), small_int(-2, 2)];
    let ds = Array2::zeros((N, 1));
    let k = Kernel { inner: KernelInner::Dense(Array2::zeros((N, N))), method: KernelMethod::Gaussian(1.0) };
    let mut s = SolverState::new(alpha.to_vec(), p.to_vec(), targets.to_vec(), ds.view(), TableKernel3 { k, q }, bounds.to_vec(),
        SolverParams { eps: 0.001, shrinking: true }, false);
    let na: usize = kani::any();
    kani::assume(na == 1 || na == 2);
    // a variable is only ever shrunk while it sits at a bound
    for t in 0..N { if t >= na { kani::assume(alpha[t] == 0.0 || alpha[t] == bounds[t]); } }
    s.nactive = na;
    // the gradient of the inactive part is stale while shrunk: scramble it
    for t in 0..N { if t >= na { s.gradient[t] = small_int(-3, 3); } }
    s.reconstruct_gradient();
    for kk in 0..N {
        if kk >= na {
            let mut full = p[kk];
            for t in 0..N { full += alpha[t] * q[t][kk]; }
            assert!(s.gradient[kk] == full);
        }
    }
    let nfree = (0..na).filter(|t| alpha[*t] > 0.0 && alpha[*t] < 2.0).count();
    kani::cover!(nfree * N > 2 * na * (N - na));     // first branch of reconstruct_gradient
    kani::cover!(nfree * N <= 2 * na * (N - na) && nfree > 0);
}

// ---------------------------------------------------------------------------------------------
// rho (C13: "samples with zero coefficient lie on or outside the margin, free support vectors on it and bounded ones on
// or inside it").  With G the gradient of the dual, y_i*G_i = f(x_i) + rho - y_i, so the three margin conditions read, for
// the published threshold rho:   y=+1: alpha=0 => rho <= y*G,  alpha at bound => rho >= y*G;
//                                y=-1: alpha=0 => rho >= y*G,  alpha at bound => rho <= y*G;   free => rho == y*G.
// Whenever the state admits such a rho (lb <= ub), calculate_rho() must return one; with free vectors it is their mean.
// @unit class=bounded tier=quick mem=light bound="l=3 variables, integer-valued gradients, every status pattern" timeout=900 fns=linfa_svm::solver_smo::SolverState::calculate_rho
#[kani::proof]
#[kani::unwind(5)]
#[kani::stub(alloc::fmt::format, fmt_stub)]
fn c13_rho_respects_margin_conditions() {
    let bounds = [2.0f32, 2.0, 2.0];
    let status: [u8; N] = kani::any();             // 0 = at zero, 1 = free, 2 = at the upper bound
    for t in 0..N { kani::assume(status[t] < 3); }
    let alpha = [status[0] as f32, status[1] as f32, status[2] as f32];
    let targets: [bool; N] = kani::any();
    let g = [small_int(-4, 4), small_int(-4, 4), small_int(-4, 4)];
    let ds = Array2::zeros((N, 1));
    let k = Kernel { inner: KernelInner::Dense(Array2::zeros((N, N))), method: KernelMethod::Gaussian(1.0) };
    let mut s = SolverState::new(alpha.to_vec(), vec![0.0; N], targets.to_vec(), ds.view(), TableKernel3 { k, q: [[0.0; N]; N] }, bounds.to_vec(),
        SolverParams { eps: 0.001, shrinking: false }, false);
    for t in 0..N { s.gradient[t] = g[t]; }
    let rho = s.calculate_rho();
    let mut nfree = 0u8;
    let mut sum_free = 0.0f32;
    let (mut lb, mut ub) = (f32::NEG_INFINITY, f32::INFINITY);
    for t in 0..N {
        let yg = if targets[t] { g[t] } else { -g[t] };
        if status[t] == 1 { nfree += 1; sum_free += yg; }
        else if (status[t] == 0) == targets[t] { if yg < ub { ub = yg; } }      // (alpha = 0, y = +1) or (alpha at bound, y = -1): rho <= y*G
        else { if yg > lb { lb = yg; } }                                          // (alpha at bound, y = +1) or (alpha = 0, y = -1): rho >= y*G
    }
    if nfree > 0 {
        assert!(rho == sum_free / nfree as f32);
    } else if lb <= ub {
        assert!(rho >= lb && rho <= ub);
        if lb.is_finite() && ub.is_finite() { assert!(rho == (ub + lb) / 2.0); }
        // a threshold is a number: when only one side is pinned (e.g. one-class with nu = 1: every variable at its bound)
        // the published rho must still be finite (any value beyond the pinned side satisfies the margin conditions)
        assert!(rho.is_finite());
    }
    kani::cover!(nfree == 0 && lb.is_finite() && ub.is_finite() && lb < ub);
    kani::cover!(nfree == 2);
    kani::cover!(nfree == 0 && status[0] == 0 && status[1] == 0 && status[2] == 2);
}

// nu-formulations: two thresholds r1 (class +1) and r2 (class -1); the margin conditions bound each from both sides:
//   alpha = 0 => G_i >= r_class,   alpha at bound => G_i <= r_class,   free => G_i == r_class.
// The published pair is rho = (r1 - r2)/2 and r = (r1 + r2)/2; whenever feasible thresholds exist the published ones must be feasible.
const N4: usize = 4;
struct NullKernel4 { k: Kernel<f32> }
impl Permutable<f32> for NullKernel4 {
    fn swap_indices(&mut self, _i: usize, _j: usize) {}
    fn distances(&self, _idx: usize, length: usize) -> Vec<f32> { vec![0.0; length] }
    fn self_distance(&self, _idx: usize) -> f32 { 1.0 }
    fn inner(&self) -> &Kernel<f32> { &self.k }
    fn into_inner(self) -> Kernel<f32> { self.k }
}
// @unit class=bounded tier=quick mem=light bound="l=4 variables (two per class), integer-valued gradients, every status pattern without free variables, nu mode" timeout=900 fns=linfa_svm::solver_smo::SolverState::calculate_rho_nu
#[kani::proof]
#[kani::unwind(6)]
#[kani::stub(alloc::fmt::format, fmt_stub)]
fn c13_rho_nu_respects_margin_conditions() {
    let bounds = [2.0f32; N4];
    let at_upper: [bool; N4] = kani::any();
    let alpha = [if at_upper[0] { 2.0f32 } else { 0.0 }, if at_upper[1] { 2.0 } else { 0.0 }, if at_upper[2] { 2.0 } else { 0.0 }, if at_upper[3] { 2.0 } else { 0.0 }];
    let targets = [true, true, false, false];
    let g = [small_int(-4, 4), small_int(-4, 4), small_int(-4, 4), small_int(-4, 4)];
    let ds = Array2::zeros((N4, 1));
    let k = Kernel { inner: KernelInner::Dense(Array2::zeros((N4, N4))), method: KernelMethod::Gaussian(1.0) };
    let mut s = SolverState::new(alpha.to_vec(), vec![0.0; N4], targets.to_vec(), ds.view(), NullKernel4 { k }, bounds.to_vec(),
        SolverParams { eps: 0.001, shrinking: false }, true);
    for t in 0..N4 { s.gradient[t] = g[t]; }
    let rho = s.calculate_rho();                   // dispatches to calculate_rho_nu
    let r = s.r;
    let (mut lb1, mut ub1, mut lb2, mut ub2) = (f32::NEG_INFINITY, f32::INFINITY, f32::NEG_INFINITY, f32::INFINITY);
    for t in 0..N4 {
        if targets[t] {
            if !at_upper[t] { if g[t] < ub1 { ub1 = g[t]; } } else { if g[t] > lb1 { lb1 = g[t]; } }
        } else {
            if !at_upper[t] { if g[t] < ub2 { ub2 = g[t]; } } else { if g[t] > lb2 { lb2 = g[t]; } }
        }
    }
    // feasible thresholds exist (every class has a member, so each class is pinned from at least one side)
    if lb1 <= ub1 && lb2 <= ub2 {
        // a class pinned from one side only (nu-SVC with nu = 1 on balanced classes: every variable at its bound) still gets a
        // finite threshold: the published rho and r are numbers
        assert!(rho.is_finite() && r.is_finite());
        let (r1, r2) = (r + rho, r - rho);         // exact: small dyadic rationals
        assert!(r1 >= lb1 && r1 <= ub1);
        assert!(r2 >= lb2 && r2 <= ub2);
    }
    kani::cover!(lb1.is_finite() && !ub1.is_finite() && lb2.is_finite() && !ub2.is_finite());   // everything at its bound
    kani::cover!(lb1.is_finite() && ub1.is_finite() && lb2.is_finite() && ub2.is_finite() && lb1 < ub1 && lb2 < ub2);
}
