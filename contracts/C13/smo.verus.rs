//! property: C13
//! unit: V-C13-smo
//! tier: quick
//! fns: linfa_svm::solver_smo::SolverState::solve (main loop control + write-back statements), linfa_svm::solver_smo::SolverState::do_shrinking, linfa_svm::solver_smo::SolverState::do_shrinking_nu, linfa_svm::solver_smo::SolverState::nactive, linfa_svm::solver_smo::SolverState::ntotal, linfa_svm::solver_smo::SolverState::swap, linfa_svm::solver_smo::SolverState::bound, linfa_svm::permutable_kernel::PermutableKernel::swap_indices
//! pair: c13_swap_keeps_bounds_aligned
//@ extract STRUCT from algorithms/linfa-svm/src/solver_smo.rs anchor "pub struct SolverState<'a, F: Float, K: Permutable<F>> {" body
//@ rewrite STRUCT "///" => "//"
//@ rewrite STRUCT "Vec<F>" => "Vec<FTok>"
//@ rewrite STRUCT "Vec<Alpha<F>>" => "Vec<AlphaTok>"
//@ rewrite STRUCT "r: F," => "r: FTok,"
//@ rewrite STRUCT "kernel: K," => "kernel: KernelV,"
//@ drop STRUCT from "dataset: ArrayView2<'a, F>," through "dataset: ArrayView2<'a, F>," as "    /* dropped field: dataset (ndarray view, not per-sample state of the solver) */"
//@ drop STRUCT from "params: SolverParams<F>," through "params: SolverParams<F>," as "    /* dropped field: params */"
//@ drop STRUCT from "phantom: PhantomData<&'a K>," through "phantom: PhantomData<&'a K>," as "    /* dropped field: phantom */"
//@ extract SWAP from algorithms/linfa-svm/src/solver_smo.rs anchor "pub fn swap(&mut self, i: usize, j: usize) {" body
//@ extract BOUND from algorithms/linfa-svm/src/solver_smo.rs anchor "pub fn bound(&self, idx: usize) -> F {" body
//@ extract KSWAP from algorithms/linfa-svm/src/permutable_kernel.rs anchor "impl<F: Float> Permutable<F> for PermutableKernel<F> {" until "/// Return distances from node `idx` to all other nodes"
//@ rewrite KSWAP "impl<F: Float> Permutable<F> for PermutableKernel<F> {" => "impl KernelV {"
//@ insert KSWAP before-brace "fn swap_indices(&mut self, i: usize, j: usize) {" : requires i < old(self).kernel_indices@.len(), j < old(self).kernel_indices@.len(), ensures final(self).kernel_indices@ == sw(old(self).kernel_indices@, i as int, j as int),
//@ extract NACTIVE from algorithms/linfa-svm/src/solver_smo.rs anchor "pub fn nactive(&self) -> usize {" body
//@ extract NTOTAL from algorithms/linfa-svm/src/solver_smo.rs anchor "pub fn ntotal(&self) -> usize {" body
//@ extract SHRINK from algorithms/linfa-svm/src/solver_smo.rs anchor "pub fn do_shrinking(&mut self) {" body
//@ rewrite SHRINK "let (gmax1, gmax2) = self.max_violating_pair();" => "let (gmax1, gmax2) = self.max_violating_pair_abs();   /* float scan abstracted: any pair of values */"
//@ drop SHRINK from "let (gmax1, gmax2) = (gmax1.0, gmax2.0);" through "let (gmax1, gmax2) = (gmax1.0, gmax2.0);" as "        /* dropped: tuple projection of the float scan result */"
//@ rewrite SHRINK "gmax1 + gmax2 <= self.params.eps * F::cast(10.0)" => "self.unshrink_threshold_abs(gmax1, gmax2)"
//@ rewrite SHRINK "self.do_shrinking_nu();" => "self.do_shrinking_nu(Ghost(orig), Ghost(track));"
//@ insert SHRINK before-brace "while i " : invariant self.wf(), self.n() == n0, self.nactive <= self.n(), i <= self.nactive + 1, i <= self.n(), (track ==> is_perm(self.active_set@) && self.all_aligned(&orig)), decreases self.n() - i,
//@ insert SHRINK before-brace "while self.nactive " : invariant_except_break self.wf(), self.n() == n0, i < self.n(), i <= self.nactive, self.nactive < self.n(), (track ==> is_perm(self.active_set@) && self.all_aligned(&orig)), ensures self.wf(), self.n() == n0, i < self.n(), i <= self.nactive, self.nactive < self.n(), (track ==> is_perm(self.active_set@) && self.all_aligned(&orig)), decreases self.nactive - i,
//@ insert SHRINK before "self.swap(i, self.nactive());" : proof { if track { self.lemma_swap_all(&orig, i as int, self.nactive as int); } }
//@ extract SHRINKNU from algorithms/linfa-svm/src/solver_smo.rs anchor "pub fn do_shrinking_nu(&mut self) {" body
//@ rewrite SHRINKNU "let (gmax1, gmax2, gmax3, gmax4) = self.max_violating_pair_nu();" => "let (gmax1, gmax2, gmax3, gmax4) = self.max_violating_pair_nu_abs();   /* float scan abstracted */"
//@ drop SHRINKNU from "let (gmax1, gmax2, gmax3, gmax4) = (gmax1.0, gmax2.0, gmax3.0, gmax4.0);" through "let (gmax1, gmax2, gmax3, gmax4) = (gmax1.0, gmax2.0, gmax3.0, gmax4.0);" as "        /* dropped: tuple projection */"
//@ rewrite SHRINKNU "if !self.unshrink && F::max(gmax1 + gmax2, gmax3 + gmax4) <= self.params.eps * F::cast(10.0)" => "if !self.unshrink && self.unshrink_threshold_nu_abs(gmax1, gmax2, gmax3, gmax4)"
//@ insert SHRINKNU before-brace "while i " : invariant self.wf(), self.n() == n0, self.nactive <= self.n(), i <= self.nactive + 1, i <= self.n(), (track ==> is_perm(self.active_set@) && self.all_aligned(&orig)), decreases self.n() - i,
//@ insert SHRINKNU before-brace "while self.nactive " : invariant_except_break self.wf(), self.n() == n0, i < self.n(), i <= self.nactive, self.nactive < self.n(), (track ==> is_perm(self.active_set@) && self.all_aligned(&orig)), ensures self.wf(), self.n() == n0, i < self.n(), i <= self.nactive, self.nactive < self.n(), (track ==> is_perm(self.active_set@) && self.all_aligned(&orig)), decreases self.nactive - i,
//@ insert SHRINKNU before "self.swap(i, self.nactive());" : proof { if track { self.lemma_swap_all(&orig, i as int, self.nactive as int); } }
//@ extract WRITEBACK from algorithms/linfa-svm/src/solver_smo.rs anchor "// put back the solution" until "// If we are solving a regresssion problem"
//@ rewrite WRITEBACK "vec![F::zero(); self.ntotal()]" => "vec_of_zero_tokens(self.ntotal())"
//@ rewrite WRITEBACK "vec![false; self.ntotal()]" => "vec_of_false(self.ntotal())"
//@ rewrite WRITEBACK "Vec<F>" => "Vec<FTok>"
//@ insert WRITEBACK before-brace "for i in 0..self.ntotal() {" : invariant self.wf(), is_perm(self.active_set@), alpha@.len() == self.n(), orig_targets@.len() == self.n(), forall|pos: int| 0 <= pos < i ==> alpha@[#[trigger] self.active_set@[pos] as int] == self.alpha@[pos].spec_val() && orig_targets@[self.active_set@[pos] as int] == self.targets@[pos],
//@ extract SOLVE from algorithms/linfa-svm/src/solver_smo.rs anchor "let mut iter = 0;" until "let rho = self.calculate_rho();"
//@ rewrite SOLVE "usize::max(" => "usize_max("
//@ rewrite SOLVE "usize::min(" => "usize_min("
//@ rewrite SOLVE "self.params.shrinking" => "shrinking"
//@ rewrite SOLVE "self.do_shrinking();" => "self.do_shrinking(Ghost(orig), Ghost(false));"
//@ insert SOLVE before-brace "while iter " : invariant_except_break self.wf(), self.n() == n0, n0 >= 1, self.nactive <= self.n(), counter >= 1, iter <= max_iter, ensures self.wf(), self.n() == n0, self.nactive <= self.n(), iter >= max_iter || self.nactive == self.n(), decreases max_iter - iter,
//@ expect-fail vacuity_guard_swap
//@ expect-fail vacuity_guard_solve
//@ expect-fail vacuity_guard_writeback
//@ expect-fail vacuity_guard_shrink
use vstd::prelude::*;
verus! {
pub assume_specification<T> [ <[T]>::swap ] (s: &mut [T], a: usize, b: usize)
    requires a < old(s)@.len(), b < old(s)@.len(),
    ensures final(s)@ == old(s)@.update(a as int, old(s)@[b as int]).update(b as int, old(s)@[a as int]);

// opaque token types: the code under verification only moves these values
#[derive(Clone, Copy)]
pub struct FTok { pub id: u64 }
pub struct AlphaTok { pub id: u64 }
impl AlphaTok {
    pub uninterp spec fn spec_val(&self) -> FTok;
    #[verifier::external_body]
    pub fn val(&self) -> (r: FTok) ensures r == self.spec_val() { unimplemented!() }
}
// stand-ins for the two `vec![x; n]` macro calls of the write-back (the macro's repeat form is outside Verus' vstd)
#[verifier::external_body]
fn vec_of_zero_tokens(n: usize) -> (r: Vec<FTok>) ensures r@.len() == n { unimplemented!() }
fn usize_max(a: usize, b: usize) -> (r: usize) ensures r == (if a >= b { a } else { b }) { if a >= b { a } else { b } }
fn usize_min(a: usize, b: usize) -> (r: usize) ensures r == (if a <= b { a } else { b }) { if a <= b { a } else { b } }
#[verifier::external_body]
fn vec_of_false(n: usize) -> (r: Vec<bool>) ensures r@.len() == n { unimplemented!() }

pub open spec fn sw<T>(s: Seq<T>, i: int, j: int) -> Seq<T> { s.update(i, s[j]).update(j, s[i]) }

// PermutableKernel reduced to the index vector that `swap_indices` permutes; method text extracted from /repo
pub struct KernelV { pub kernel_indices: Vec<usize> }
/*@KSWAP*/
}

// ---- struct SolverState: field list extracted from /repo on every run (type parameters substituted) ----
pub struct SolverStateV {
/*@STRUCT*/
}

impl SolverStateV {
    spec fn n(&self) -> int { self.alpha@.len() as int }
    // representation invariant: every per-sample vector has one entry per variable
    spec fn wf(&self) -> bool {
        self.gradient@.len() == self.n() && self.gradient_fixed@.len() == self.n() && self.active_set@.len() == self.n()
        && self.p@.len() == self.n() && self.targets@.len() == self.n() && self.bounds@.len() == self.n()
        && self.kernel.kernel_indices@.len() == self.n()
    }

    // ---- SolverState::bound, body extracted ----
    fn bound(&self, idx: usize) -> (r: &FTok)
        requires self.wf(), idx < self.n(),
        ensures *r == self.bounds@[idx as int],
    {
        &
/*@BOUND*/
    }

    // ---- SolverState::swap, body extracted ----
    // contract (C13, "shrinking keeps every per-sample quantity with its sample"): ALL per-sample
    // vectors are permuted by the same transposition, including the box bounds that `bound(idx)` looks up by position
    fn swap(&mut self, i: usize, j: usize)
        requires old(self).wf(), i < old(self).n(), j < old(self).n(),
        ensures final(self).wf(),
            final(self).gradient@ == sw(old(self).gradient@, i as int, j as int),
            final(self).gradient_fixed@ == sw(old(self).gradient_fixed@, i as int, j as int),
            final(self).alpha@ == sw(old(self).alpha@, i as int, j as int),
            final(self).p@ == sw(old(self).p@, i as int, j as int),
            final(self).active_set@ == sw(old(self).active_set@, i as int, j as int),
            final(self).targets@ == sw(old(self).targets@, i as int, j as int),
            final(self).bounds@ == sw(old(self).bounds@, i as int, j as int),
            final(self).kernel.kernel_indices@ == sw(old(self).kernel.kernel_indices@, i as int, j as int),
            final(self).nactive == old(self).nactive, final(self).unshrink == old(self).unshrink,
            final(self).nu_constraint == old(self).nu_constraint,
    {
/*@SWAP*/
    }

    // ---- accessors, bodies extracted ----
    fn nactive(&self) -> (r: usize)
        ensures r == self.nactive,
    {
/*@NACTIVE*/
    }
    fn ntotal(&self) -> (r: usize)
        ensures r == self.n(),
    {
/*@NTOTAL*/
    }

    // ---- float-valued callees of do_shrinking, abstracted by contract: they read the state, return arbitrary
    //      values, and (like the real functions) index the per-sample vectors at `i`, hence `i < n` is REQUIRED ----
    #[verifier::external_body]
    fn max_violating_pair_abs(&self) -> (r: (FTok, FTok)) requires self.wf(), self.nactive <= self.n() { unimplemented!() }
    #[verifier::external_body]
    fn max_violating_pair_nu_abs(&self) -> (r: (FTok, FTok, FTok, FTok)) requires self.wf(), self.nactive <= self.n() { unimplemented!() }
    #[verifier::external_body]
    fn unshrink_threshold_abs(&self, g1: FTok, g2: FTok) -> (r: bool) { unimplemented!() }
    #[verifier::external_body]
    fn unshrink_threshold_nu_abs(&self, g1: FTok, g2: FTok, g3: FTok, g4: FTok) -> (r: bool) { unimplemented!() }
    #[verifier::external_body]
    fn should_shrunk(&self, i: usize, gmax1: FTok, gmax2: FTok) -> (r: bool) requires self.wf(), i < self.n() { unimplemented!() }
    #[verifier::external_body]
    fn should_shrunk_nu(&self, i: usize, gmax1: FTok, gmax2: FTok, gmax3: FTok, gmax4: FTok) -> (r: bool) requires self.wf(), i < self.n() { unimplemented!() }
    // reconstruct_gradient only rewrites `gradient` (floats); everything the permutation argument needs is unchanged
    #[verifier::external_body]
    fn reconstruct_gradient(&mut self)
        requires old(self).wf(), old(self).nactive <= old(self).n(),
        ensures final(self).wf(), final(self).n() == old(self).n(), final(self).nactive == old(self).nactive,
            final(self).gradient_fixed@ == old(self).gradient_fixed@, final(self).alpha@ == old(self).alpha@,
            final(self).active_set@ == old(self).active_set@, final(self).p@ == old(self).p@, final(self).targets@ == old(self).targets@,
            final(self).bounds@ == old(self).bounds@, final(self).kernel.kernel_indices@ == old(self).kernel.kernel_indices@,
            final(self).unshrink == old(self).unshrink, final(self).nu_constraint == old(self).nu_constraint,
    { unimplemented!() }

    // every per-sample vector EXCEPT gradient (recomputed from floats) is the original one seen through active_set
    spec fn all_aligned(&self, orig: &SolverStateV) -> bool {
        aligned(self.gradient_fixed@, orig.gradient_fixed@, self.active_set@)
        && aligned(self.alpha@, orig.alpha@, self.active_set@)
        && aligned(self.p@, orig.p@, self.active_set@)
        && aligned(self.targets@, orig.targets@, self.active_set@)
        && aligned(self.bounds@, orig.bounds@, self.active_set@)
        && aligned(self.kernel.kernel_indices@, orig.kernel.kernel_indices@, self.active_set@)
    }
    proof fn lemma_swap_all(&self, orig: &SolverStateV, i: int, j: int)
        requires self.wf(), self.all_aligned(orig), is_perm(self.active_set@), 0 <= i < self.n(), 0 <= j < self.n(),
        ensures
            is_perm(sw(self.active_set@, i, j)),
            aligned(sw(self.gradient_fixed@, i, j), orig.gradient_fixed@, sw(self.active_set@, i, j)),
            aligned(sw(self.alpha@, i, j), orig.alpha@, sw(self.active_set@, i, j)),
            aligned(sw(self.p@, i, j), orig.p@, sw(self.active_set@, i, j)),
            aligned(sw(self.targets@, i, j), orig.targets@, sw(self.active_set@, i, j)),
            aligned(sw(self.bounds@, i, j), orig.bounds@, sw(self.active_set@, i, j)),
            aligned(sw(self.kernel.kernel_indices@, i, j), orig.kernel.kernel_indices@, sw(self.active_set@, i, j)),
    {
        lemma_swap_preserves_perm(self.active_set@, i, j);
        lemma_swap_preserves_alignment(self.gradient_fixed@, orig.gradient_fixed@, self.active_set@, i, j);
        lemma_swap_preserves_alignment(self.alpha@, orig.alpha@, self.active_set@, i, j);
        lemma_swap_preserves_alignment(self.p@, orig.p@, self.active_set@, i, j);
        lemma_swap_preserves_alignment(self.targets@, orig.targets@, self.active_set@, i, j);
        lemma_swap_preserves_alignment(self.bounds@, orig.bounds@, self.active_set@, i, j);
        lemma_swap_preserves_alignment(self.kernel.kernel_indices@, orig.kernel.kernel_indices@, self.active_set@, i, j);
    }

    // ---- SolverState::do_shrinking_nu / do_shrinking, bodies extracted ----
    // contract (C13): shrinking never panics (no index out of range, no usize underflow of the active-set size),
    // keeps 0 <= nactive <= n, keeps active_set a permutation and keeps every per-sample vector aligned with it
    fn do_shrinking_nu(&mut self, Ghost(orig): Ghost<SolverStateV>, Ghost(track): Ghost<bool>)
        requires old(self).wf(), old(self).nactive <= old(self).n(), track ==> is_perm(old(self).active_set@) && old(self).all_aligned(&orig),
        ensures final(self).wf(), final(self).n() == old(self).n(), final(self).nactive <= final(self).n(),
            track ==> is_perm(final(self).active_set@) && final(self).all_aligned(&orig),
    {
        let ghost n0 = self.n();
/*@SHRINKNU*/
    }
    fn do_shrinking(&mut self, Ghost(orig): Ghost<SolverStateV>, Ghost(track): Ghost<bool>)
        requires old(self).wf(), old(self).nactive <= old(self).n(), track ==> is_perm(old(self).active_set@) && old(self).all_aligned(&orig),
        ensures final(self).wf(), final(self).n() == old(self).n(), final(self).nactive <= final(self).n(),
            track ==> is_perm(final(self).active_set@) && final(self).all_aligned(&orig),
    {
        let ghost n0 = self.n();
/*@SHRINK*/
    }
    fn vacuity_guard_shrink(&mut self, Ghost(orig): Ghost<SolverStateV>, Ghost(track): Ghost<bool>)
        requires old(self).wf(), old(self).nactive <= old(self).n(), track ==> is_perm(old(self).active_set@) && old(self).all_aligned(&orig),
        ensures false,
    {
    }

    // ---- solve(): the "put back the solution" statements, extracted ----
    // contract (C13, "published dual coefficients"): the coefficient computed at position pos is published at the
    // ORIGINAL index active_set[pos] of its sample, and so is its target sign used for the linear hyperplane
    fn write_back(&self, Ghost(orig): Ghost<SolverStateV>) -> (r: (Vec<FTok>, Vec<bool>))
        requires self.wf(), is_perm(self.active_set@), self.all_aligned(&orig),
        ensures r.0@.len() == self.n(), r.1@.len() == self.n(),
            forall|pos: int| 0 <= pos < self.n() ==> r.0@[#[trigger] self.active_set@[pos] as int] == self.alpha@[pos].spec_val(),
            // the target signs put back in original order (when the code builds them at all): entry k is the target of ORIGINAL sample k
            forall|k: int| 0 <= k < self.n() ==> r.1@[k] == orig.targets@[k],
    {
/*@WRITEBACK*/
        proof {
            assert forall|k: int| 0 <= k < self.n() implies orig_targets@[k] == orig.targets@[k] by {
                lemma_perm_surjective(self.active_set@, k);
                let pos = choose|p: int| 0 <= p < self.active_set@.len() && self.active_set@[p] == k;
                assert(orig_targets@[self.active_set@[pos] as int] == self.targets@[pos]);
            }
        }
        (alpha, orig_targets)
    }


    fn vacuity_guard_writeback(&self, Ghost(orig): Ghost<SolverStateV>) -> (r: (Vec<FTok>, Vec<bool>))
        requires self.wf(), is_perm(self.active_set@), self.all_aligned(&orig),
        ensures false,
    {
        (Vec::new(), Vec::new())
    }

    // ---- callees of the main loop that are float computations: abstracted by (assumed) contracts ----
    // select_working_set only ever proposes variables of the active set (it scans 0..nactive)
    #[verifier::external_body]
    fn select_working_set(&self) -> (r: (usize, usize, bool))
        requires self.wf(), self.nactive <= self.n(),
        ensures !r.2 ==> r.0 < self.nactive && r.1 < self.nactive,
    { unimplemented!() }
    // update changes alpha, gradient, gradient_fixed (floats) of the pair; sizes and the active set stay
    #[verifier::external_body]
    fn update(&mut self, working_set: (usize, usize))
        requires old(self).wf(), old(self).nactive <= old(self).n(), working_set.0 < old(self).nactive, working_set.1 < old(self).nactive,
        ensures final(self).wf(), final(self).n() == old(self).n(), final(self).nactive == old(self).nactive,
    { unimplemented!() }

    // ---- solve(): iteration-count set-up, main loop and the unshrink epilogue, extracted ----
    // contract (C13, "KKT conditions ... up to the solver tolerance", with or without shrinking): optimality is only ever
    // declared (break) after the gradient was reconstructed and the check repeated on ALL variables, and whatever way the loop
    // ends, rho and the published coefficients are computed with every variable active; no counter underflow, the working
    // pair handed to update() lies inside the active set
    fn solve_control(&mut self, Ghost(orig): Ghost<SolverStateV>, shrinking: bool) -> (r: usize)
        requires old(self).wf(), old(self).n() >= 1, old(self).nactive <= old(self).n(),
        ensures final(self).wf(), final(self).n() == old(self).n(), final(self).nactive == final(self).n(),
    {
        let ghost n0 = self.n();
/*@SOLVE*/
        iter
    }
    fn vacuity_guard_solve(&mut self, Ghost(orig): Ghost<SolverStateV>, shrinking: bool) -> (r: usize)
        requires old(self).wf(), old(self).n() >= 1, old(self).nactive <= old(self).n(),
        ensures false,
    {
        0
    }

    fn vacuity_guard_swap(&mut self, i: usize, j: usize)
        requires old(self).wf(), i < old(self).n(), j < old(self).n(),
        ensures false,
    {
    }
}

// ---- property-level lemma over the contract of swap --------------------------------------------
// `aligned`: position pos of every per-sample vector holds the quantity of ORIGINAL sample active_set[pos]
pub open spec fn aligned<T>(cur: Seq<T>, orig: Seq<T>, active_set: Seq<usize>) -> bool {
    cur.len() == orig.len() && active_set.len() == orig.len()
    && forall|pos: int| 0 <= pos < cur.len() ==> 0 <= #[trigger] active_set[pos] < orig.len() && cur[pos] == orig[active_set[pos] as int]
}
proof fn lemma_swap_preserves_alignment<T>(cur: Seq<T>, orig: Seq<T>, aset: Seq<usize>, i: int, j: int)
    requires aligned(cur, orig, aset), 0 <= i < cur.len(), 0 <= j < cur.len(),
    ensures aligned(sw(cur, i, j), orig, sw(aset, i, j)),
{
    let c2 = sw(cur, i, j);
    let a2 = sw(aset, i, j);
    assert forall|pos: int| 0 <= pos < c2.len() implies 0 <= #[trigger] a2[pos] < orig.len() && c2[pos] == orig[a2[pos] as int] by {
        assert(0 <= aset[pos] < orig.len());
        assert(0 <= aset[i] < orig.len());
        assert(0 <= aset[j] < orig.len());
    }
}
// a transposition keeps active_set a permutation of 0..n (no sample is lost or duplicated by shrinking)
pub open spec fn is_perm(a: Seq<usize>) -> bool {
    (forall|p: int| 0 <= p < a.len() ==> 0 <= #[trigger] a[p] < a.len())
    && (forall|p: int, q: int| 0 <= p < a.len() && 0 <= q < a.len() && p != q ==> a[p] != a[q])
}
// a permutation of 0..n hits every index (pigeonhole): needed to turn "for every position" into "for every sample"
proof fn lemma_perm_surjective(a: Seq<usize>, k: int)
    requires is_perm(a), 0 <= k < a.len(),
    ensures exists|p: int| 0 <= p < a.len() && a[p] == k,
{
    let n = a.len() as int;
    let s = Seq::new(a.len(), |i: int| a[i] as int);
    assert(s.no_duplicates());
    s.unique_seq_to_set();
    let full = vstd::set_lib::set_int_range(0, n);
    vstd::set_lib::lemma_int_range(0, n);
    assert(s.to_set().subset_of(full)) by {
        assert forall|x: int| s.to_set().contains(x) implies full.contains(x) by {
            let p = choose|p: int| 0 <= p < s.len() && s[p] == x;
            assert(0 <= a[p] < a.len());
        }
    }
    vstd::set_lib::lemma_subset_equality(s.to_set(), full);
    assert(full.contains(k));
    assert(s.to_set().contains(k));
    let p = choose|p: int| 0 <= p < s.len() && s[p] == k;
    assert(a[p] == k);
}
proof fn lemma_swap_preserves_perm(a: Seq<usize>, i: int, j: int)
    requires is_perm(a), 0 <= i < a.len(), 0 <= j < a.len(),
    ensures is_perm(sw(a, i, j)),
{
    let b = sw(a, i, j);
    assert forall|p: int, q: int| 0 <= p < b.len() && 0 <= q < b.len() && p != q implies b[p] != b[q] by {
        let pp = if p == i { j } else if p == j { i } else { p };
        let qq = if q == i { j } else if q == j { i } else { q };
        assert(b[p] == a[pp] && b[q] == a[qq] && pp != qq);
    }
    assert forall|p: int| 0 <= p < b.len() implies 0 <= #[trigger] b[p] < b.len() by {
        let pp = if p == i { j } else if p == j { i } else { p };
        assert(b[p] == a[pp]);
    }
}
} // verus!
fn main() {}
