//! property: C18
//! unit: V-C18-projection
//! tier: quick
//! fns: linfa_reduction::pca::Pca::predict_inplace, linfa_reduction::pca::Pca::default_target, linfa_reduction::pca::Pca::inverse_transform, linfa_reduction::pca::Pca::transform (dataset form) - which matrix expression is computed from which stored field (ndarray arithmetic as tokens)
//@ extract PRED from algorithms/linfa-reduction/src/pca.rs anchor "fn predict_inplace(&self, records: &ArrayBase<D, Ix2>, targets: &mut Array2<F>) {" body
//@ drop PRED from "assert_eq!(" through ");" as "        assert_shape_abs(targets, records.nrows(), self.embedding.nrows());   /* assert_eq!(targets.shape(), &[records.nrows(), self.embedding.nrows()], ..) */"
//@ rewrite-re PRED "\(records - &(self\.\w+)\)" => "records.sub_row_abs(&\1)"
//@ rewrite-re? PRED "\(records \+ &(self\.\w+)\)" => "records.add_row_abs(&\1)"
//@ rewrite PRED ".dot(" => ".dot_abs("
//@ rewrite? PRED ".t()" => ".t_abs()"
//@ extract DEF from algorithms/linfa-reduction/src/pca.rs anchor "fn default_target(&self, x: &ArrayBase<D, Ix2>) -> Array2<F> {" body
//@ rewrite DEF "Array2::zeros(" => "MatTok::zeros("
//@ extract INV from algorithms/linfa-reduction/src/pca.rs anchor "pub fn inverse_transform(" body
//@ rewrite INV ".dot(" => ".dot_abs("
//@ rewrite? INV ".t()" => ".t_abs()"
//@ rewrite-re? INV " \+ &(self\.\w+)" => ".add_row_abs(&\1)"
//@ rewrite-re? INV " - &(self\.\w+)" => ".sub_row_abs(&\1)"
//@ extract TR from algorithms/linfa-reduction/src/pca.rs anchor "fn transform(&self, ds: DatasetBase<ArrayBase<D, Ix2>, T>) -> DatasetBase<Array2<F>, T> {" body
//@ rewrite TR "let DatasetBase {" => "let DatasetV {"
//@ rewrite TR "DatasetBase::new(" => "DatasetV::new("
//@ expect-fail vacuity_guard_projection
use vstd::prelude::*;
verus! {
// ---- matrices are known by the expression that produced them ----
pub enum ME { Input(int), Zeros(int, int), SubRow(Box<ME>, int), AddRow(Box<ME>, int), Dot(Box<ME>, Box<ME>), T(Box<ME>) }
pub struct VecTok { pub id: Ghost<int> }
pub struct MatTok { pub e: Ghost<ME>, pub nr: usize, pub nc: usize }
impl MatTok {
    pub fn nrows(&self) -> (r: usize) ensures r == self.nr { self.nr }
    // ASSUMED of ndarray: broadcast of a row vector over the rows, matrix product, transposed view, zero matrix
    #[verifier::external_body] pub fn sub_row_abs(&self, v: &VecTok) -> (r: MatTok) ensures r.e@ == ME::SubRow(Box::new(self.e@), v.id@), r.nr == self.nr, r.nc == self.nc { unimplemented!() }
    #[verifier::external_body] pub fn add_row_abs(&self, v: &VecTok) -> (r: MatTok) ensures r.e@ == ME::AddRow(Box::new(self.e@), v.id@), r.nr == self.nr, r.nc == self.nc { unimplemented!() }
    #[verifier::external_body] pub fn dot_abs(&self, o: &MatTok) -> (r: MatTok) ensures r.e@ == ME::Dot(Box::new(self.e@), Box::new(o.e@)), r.nr == self.nr, r.nc == o.nc { unimplemented!() }
    #[verifier::external_body] pub fn t_abs(&self) -> (r: MatTok) ensures r.e@ == ME::T(Box::new(self.e@)), r.nr == self.nc, r.nc == self.nr { unimplemented!() }
    #[verifier::external_body] pub fn zeros(shape: (usize, usize)) -> (r: MatTok) ensures r.e@ == ME::Zeros(shape.0 as int, shape.1 as int), r.nr == shape.0, r.nc == shape.1 { unimplemented!() }
}
// the documented panic: "The number of data points must match the number of output targets."
#[verifier::external_body] pub fn assert_shape_abs(t: &MatTok, r: usize, c: usize) requires t.nr == r, t.nc == c { unimplemented!() }

pub struct Tok { pub id: Ghost<int> }
pub struct DatasetV { pub records: MatTok, pub targets: Tok, pub weights: Tok, pub feature_names: Tok }
impl DatasetV {
    #[verifier::external_body] pub fn new(records: MatTok, targets: Tok) -> (r: DatasetV) ensures r.records == records, r.targets == targets, r.weights.id@ == -1, r.feature_names.id@ == -1 { unimplemented!() }
    #[verifier::external_body] pub fn with_weights(self, w: Tok) -> (r: DatasetV) ensures r.records == self.records, r.targets == self.targets, r.weights == w, r.feature_names == self.feature_names { unimplemented!() }
}

pub struct PcaV { pub embedding: MatTok, pub mean: VecTok }
pub open spec fn projected(x: ME, model: PcaV) -> ME { ME::Dot(Box::new(ME::SubRow(Box::new(x), model.mean.id@)), Box::new(ME::T(Box::new(model.embedding.e@)))) }
impl PcaV {
    // C18: "projecting the centred ... data": transform(X) = (X - mean) * components^T, one output row per input row, one column per component
    pub fn predict_inplace(&self, records: &MatTok, targets: &mut MatTok)
        requires old(targets).nr == records.nr, old(targets).nc == self.embedding.nr,
        ensures final(targets).e@ == projected(records.e@, *self), final(targets).nr == records.nr, final(targets).nc == self.embedding.nr,
    {
/*@PRED*/
    }
    pub fn default_target(&self, x: &MatTok) -> (r: MatTok)
        ensures r.nr == x.nr, r.nc == self.embedding.nr,
    {
/*@DEF*/
    }
    // C18: "transform followed by inverse transform is the orthogonal projection onto the component subspace about the mean":
    // inverse_transform(Z) = Z * components + mean
    pub fn inverse_transform(&self, prediction: MatTok) -> (r: MatTok)
        ensures r.e@ == ME::AddRow(Box::new(ME::Dot(Box::new(prediction.e@), Box::new(self.embedding.e@))), self.mean.id@),
    {
/*@INV*/
    }
    // dataset form: the records are projected exactly like the array form, targets and weights are handed over unchanged
    pub fn transform(&self, ds: DatasetV) -> (r: DatasetV)
        ensures r.records.e@ == projected(ds.records.e@, *self), r.records.nr == ds.records.nr, r.records.nc == self.embedding.nr,
            r.targets == ds.targets, r.weights == ds.weights,
    {
/*@TR*/
    }
    pub fn vacuity_guard_projection(&self, ds: DatasetV) -> (r: DatasetV)
        ensures false,
    {
        ds
    }
}
} // verus!
fn main() {}
