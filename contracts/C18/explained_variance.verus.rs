//! property: C18
//! unit: V-C18-explained-variance
//! tier: quick
//! fns: linfa_reduction::pca::Pca::explained_variance, linfa_reduction::pca::Pca::explained_variance_ratio (element closures, the sum and the final division; floats as mathematical reals)
//@ extract EV from algorithms/linfa-reduction/src/pca.rs anchor "pub fn explained_variance(&self) -> Array1<f64> {" body
//@ rewrite EV "mapv(|x| " => "mapv(|x: FT| -> (o: FT) ensures o.v@ == x.v@ * x.v@ / ((self.n_samples as int) as real - 1real) { "
//@ rewrite? EV "self.n_samples as f64" => "FT::from_usize(self.n_samples)"
//@ rewrite? EV "self.sigma.len() as f64" => "FT::from_usize(self.sigma.len())"
//@ rewrite EV " - 1.0))" => " - FT::one()) })"
//@ extract EVR from algorithms/linfa-reduction/src/pca.rs anchor "pub fn explained_variance_ratio(&self) -> Array1<f64> {" body
//@ rewrite? EVR "mapv(|x| x * x);" => "mapv(|x: FT| -> (o: FT) ensures o.v@ == x.v@ * x.v@ { x * x });"
//@ rewrite? EVR "mapv(|x| x * x / (" => "mapv(|x: FT| -> (o: FT) ensures o.v@ == x.v@ * x.v@ / ((self.n_samples as int) as real - 1real) { x * x / ("
//@ rewrite? EVR "self.n_samples as f64" => "FT::from_usize(self.n_samples)"
//@ rewrite? EVR "self.sigma.len() as f64" => "FT::from_usize(self.sigma.len())"
//@ rewrite? EVR " - 1.0));" => " - FT::one()) });"
//@ insert EVR at-end : proof { assert(ex_var.v@ =~= scaled(self.sigma.v@, 1real) || ex_var.v@ =~= scaled(self.sigma.v@, (self.n_samples as int) as real - 1real)); }
//@ expect-fail vacuity_guard_ev
use vstd::prelude::*;
use vstd::std_specs::ops::*;
verus! {
// ---- floats as mathematical numbers (DESIGN.md 4.3) ----
#[derive(Clone, Copy)]
pub struct FT { pub v: Ghost<real> }
impl core::ops::Div for FT { type Output = FT; #[verifier::external_body] fn div(self, o: FT) -> (r: FT) { unimplemented!() } }
impl DivSpecImpl<FT> for FT {
    open spec fn obeys_div_spec() -> bool { true }
    open spec fn div_req(self, o: FT) -> bool { true }
    open spec fn div_spec(self, o: FT) -> FT { FT { v: Ghost(self.v@ / o.v@) } }
}
impl core::ops::Mul for FT { type Output = FT; #[verifier::external_body] fn mul(self, o: FT) -> (r: FT) { unimplemented!() } }
impl MulSpecImpl<FT> for FT {
    open spec fn obeys_mul_spec() -> bool { true }
    open spec fn mul_req(self, o: FT) -> bool { true }
    open spec fn mul_spec(self, o: FT) -> FT { FT { v: Ghost(self.v@ * o.v@) } }
}
impl core::ops::Sub for FT { type Output = FT; #[verifier::external_body] fn sub(self, o: FT) -> (r: FT) { unimplemented!() } }
impl SubSpecImpl<FT> for FT {
    open spec fn obeys_sub_spec() -> bool { true }
    open spec fn sub_req(self, o: FT) -> bool { true }
    open spec fn sub_spec(self, o: FT) -> FT { FT { v: Ghost(self.v@ - o.v@) } }
}
impl FT {
    // `n as f64` for a usize n: the number n (exact below 2^53; machine rounding is outside this unit)
    #[verifier::external_body] pub fn from_usize(n: usize) -> (r: FT) ensures r.v@ == (n as int) as real { unimplemented!() }
    #[verifier::external_body] pub fn one() -> (r: FT) ensures r.v@ == 1real { unimplemented!() }
}
pub open spec fn seq_sum(s: Seq<real>) -> real decreases s.len() {
    if s.len() == 0 { 0real } else { seq_sum(s.drop_last()) + s.last() }
}
pub struct VecTok { pub v: Ghost<Seq<real>> }
impl VecTok {
    // ASSUMED of ndarray: mapv yields a new array of the same length whose element i is f(element i)
    #[verifier::external_body]
    pub fn mapv<G: Fn(FT) -> FT>(&self, f: G) -> (r: VecTok)
        requires forall|e: FT| f.requires((e,)),
        ensures r.v@.len() == self.v@.len(),
            forall|i: int| 0 <= i < self.v@.len() ==> exists|e: FT, o: FT| e.v@ == self.v@[i] && #[trigger] f.ensures((e,), o) && o.v@ == #[trigger] r.v@[i],
    { unimplemented!() }
    // ASSUMED of ndarray: sum of all elements
    #[verifier::external_body] pub fn sum(&self) -> (r: FT) ensures r.v@ == seq_sum(self.v@) { unimplemented!() }
    #[verifier::external_body] pub fn len(&self) -> (r: usize) ensures r == self.v@.len() { unimplemented!() }
}
// ASSUMED of ndarray: array / scalar divides every element
impl core::ops::Div<FT> for VecTok { type Output = VecTok; #[verifier::external_body] fn div(self, o: FT) -> (r: VecTok) { unimplemented!() } }
impl DivSpecImpl<FT> for VecTok {
    open spec fn obeys_div_spec() -> bool { true }
    open spec fn div_req(self, o: FT) -> bool { true }
    open spec fn div_spec(self, o: FT) -> VecTok { VecTok { v: Ghost(Seq::new(self.v@.len(), |i: int| self.v@[i] / o.v@)) } }
}
pub open spec fn squares(s: Seq<real>) -> Seq<real> { Seq::new(s.len(), |i: int| s[i] * s[i]) }

pub open spec fn scaled(s: Seq<real>, c: real) -> Seq<real> { Seq::new(s.len(), |j: int| s[j] * s[j] / c) }
pub open spec fn ratio_is(r: Seq<real>, sigma: Seq<real>, c: real) -> bool {
    r.len() == sigma.len() && forall|i: int| 0 <= i < sigma.len() ==> #[trigger] r[i] == (sigma[i] * sigma[i] / c) / seq_sum(scaled(sigma, c))
}
pub struct PcaV { pub sigma: VecTok, pub n_samples: usize }
impl PcaV {
    // C18: "the reported explained variances (singular value squared over n-1)" - n is the number of TRAINING SAMPLES
    pub fn explained_variance(&self) -> (r: VecTok)
        ensures r.v@.len() == self.sigma.v@.len(),
            forall|i: int| 0 <= i < self.sigma.v@.len() ==> #[trigger] r.v@[i] == self.sigma.v@[i] * self.sigma.v@[i] / ((self.n_samples as int) as real - 1real),
    {
/*@EV*/
    }
    // C18: "explained-variance ratios are finite, non-negative and proportional to the explained variances": ratio i is
    // (sigma_i^2 / c) / sum_j (sigma_j^2 / c) with the common factor c either 1 (cancelled) or n-1 (the explained variances themselves)
    pub fn explained_variance_ratio(&self) -> (r: VecTok)
        ensures ratio_is(r.v@, self.sigma.v@, 1real) || (self.n_samples != 1 && ratio_is(r.v@, self.sigma.v@, (self.n_samples as int) as real - 1real)),
    {
/*@EVR*/
    }
    pub fn vacuity_guard_ev(&self) -> (r: VecTok)
        ensures false,
    {
        VecTok { v: Ghost(Seq::empty()) }
    }
}
} // verus!
fn main() {}
