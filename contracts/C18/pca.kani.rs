//! property: C18
//! attach: algorithms/linfa-reduction/src/pca.rs
//! module: vk_c18_pca
// @include common/prelude.rs
use super::*;
use ndarray::{Array1, Array2};

fn c18_sf(lo: i8, hi: i8) -> f32 {
    let v: i8 = kani::any();
    kani::assume(v >= lo && v <= hi);
    v as f32
}
// textbook triple loop standing in for ndarray's private `mat_mul_general` ("C <- alpha A B + beta C"): the real one reaches matrixmultiply's
// CPU-feature detection (inline asm, unsupported by Kani).  TRUSTED MODEL, listed with the stubs of the evidence.
fn c18_mat_mul<A: ndarray::LinalgScalar>(alpha: A, lhs: &ndarray::ArrayView2<'_, A>, rhs: &ndarray::ArrayView2<'_, A>, beta: A, c: &mut ndarray::ArrayViewMut2<'_, A>) {
    let ((m, k), (_, n)) = (lhs.dim(), rhs.dim());
    for i in 0..m {
        for j in 0..n {
            let mut acc = A::zero();
            for l in 0..k { acc = acc + lhs[(i, l)] * rhs[(l, j)]; }
            c[(i, j)] = if beta.is_zero() { alpha * acc } else { beta * c[(i, j)] + alpha * acc };
        }
    }
}

// C18: transform(X) = (X - mean) * components^T - also through the in-place form with a target buffer that already holds something
// (the values a previous call left there): the result must not depend on it.
// @unit class=bounded tier=quick mem=heavy bound="2 rows, 2 features, 1 component; integer-valued inputs in [-4,4]; mat-mul kernel modelled" timeout=900 fns=linfa_reduction::pca::Pca::predict_inplace
#[kani::proof]
#[kani::unwind(4)]
#[kani::stub(alloc::fmt::format, fmt_stub)]
#[kani::stub(ndarray::linalg::impl_linalg::mat_mul_general, c18_mat_mul)]
fn c18_predict_inplace_overwrites() {
    let e = [c18_sf(-4, 4), c18_sf(-4, 4)];
    let m = [c18_sf(-4, 4), c18_sf(-4, 4)];
    let x = [c18_sf(-4, 4), c18_sf(-4, 4), c18_sf(-4, 4), c18_sf(-4, 4)];
    let old = [c18_sf(-4, 4), c18_sf(-4, 4)];
    let model = Pca::<f32> {
        embedding: Array2::from_shape_vec((1, 2), vec![e[0], e[1]]).unwrap(),
        sigma: Array1::from(vec![1.0f32]),
        mean: Array1::from(vec![m[0], m[1]]),
        n_samples: 2,
    };
    let records = Array2::from_shape_vec((2, 2), vec![x[0], x[1], x[2], x[3]]).unwrap();
    let mut targets = Array2::from_shape_vec((2, 1), vec![old[0], old[1]]).unwrap();
    model.predict_inplace(&records, &mut targets);
    assert!(targets.nrows() == 2 && targets.ncols() == 1);
    assert!(targets[(0, 0)] == (x[0] - m[0]) * e[0] + (x[1] - m[1]) * e[1]);
    assert!(targets[(1, 0)] == (x[2] - m[0]) * e[0] + (x[3] - m[1]) * e[1]);
    kani::cover!(old[0] != 0.0 && targets[(0, 0)] != 0.0);
}
