//! property: C18
//! unit: V-C18-fit-assembly
//! tier: quick
//! fns: linfa_reduction::pca::PcaParams::fit (guards, centring, what is handed to the truncated SVD, whitening scale per component, assembly of the model; SVD / mean / matrix arithmetic are tokens)
//@ extract FIT from algorithms/linfa-reduction/src/pca.rs anchor "fn fit(&self, dataset: &DatasetBase<ArrayBase<D, Ix2>, T>) -> Result<Pca<f64>> {" body
//@ desugar FIT range-contains
//@ drop FIT from "#[cfg(feature = \"blas\")]" through "#[cfg(not(feature = \"blas\"))]" as "        /* dropped: the cfg(feature = blas) variant of the SVD call (ndarray-linalg back end, not built by the test-suite) */"
//@ rewrite FIT "let x = x - &mean;" => "let x = x.sub_row_abs(&mean);   /* x - &mean */"
//@ rewrite FIT "let (_, sigma, mut v_t) = result.values_vectors();" => "let (u_unused, sigma, mut v_t) = result.values_vectors();"
//@ rewrite FIT "sigma.mapv(|x| x.max(1e-8))" => "sigma.mapv_clip_abs()   /* sigma.mapv(|x| x.max(1e-8)) */"
//@ rewrite-re FIT "([\\w.]+(?:\\(\\))?) as f64" => "FT::from_usize(\\1)"
//@ rewrite-re? FIT "(?<![\\w.])1\\.(?![\\w])" => "FT::one()"
//@ rewrite FIT ".sqrt()" => ".sqrt_abs()"
//@ rewrite FIT "for (mut v_t, sigma) in v_t.axis_iter_mut(Axis(0)).zip(sigma.iter()) {" => "for i in 0..sigma.len()   /* for (mut v_t, sigma) in v_t.axis_iter_mut(Axis(0)).zip(sigma.iter()) */ {"
//@ rewrite-re FIT "v_t \\*= (.*);" => "let sigma_i_abs = sigma.at_abs(i); let sigma = &sigma_i_abs;   /* the zipped element of sigma */ v_t.scale_row_abs(i, \\1);   /* `v_t *= ..;` on the zipped row i */"
//@ insert FIT before-brace "for i in 0..sigma.len() " : invariant v_t.e@ == v_t0.e@, v_t.scale@.len() == sigma.v@.len(), cov_scale.v@ == sqrt_spec((dataset.n as int) as real - 1real), forall|j: int| 0 <= j < i ==> #[trigger] v_t.scale@[j] == cov_scale.v@ / sigma.v@[j], forall|j: int| i <= j < sigma.v@.len() ==> #[trigger] v_t.scale@[j] == 1real,
//@ insert FIT after "let (u_unused, sigma, mut v_t) = result.values_vectors();" : let ghost v_t0 = v_t;
//@ rewrite FIT "Ok(Pca {" => "Ok(PcaV {"
//@ expect-fail vacuity_guard_fit
use vstd::prelude::*;
use vstd::std_specs::ops::*;
verus! {
// ---- floats as mathematical numbers (DESIGN.md 4.3) ----
#[derive(Clone, Copy)]
pub struct FT { pub v: Ghost<real> }
impl core::ops::Div for FT { type Output = FT; #[verifier::external_body] fn div(self, o: FT) -> (r: FT) { unimplemented!() } }
impl DivSpecImpl<FT> for FT {
    open spec fn obeys_div_spec() -> bool { true }
    open spec fn div_req(self, o: FT) -> bool { true }
    open spec fn div_spec(self, o: FT) -> FT { FT { v: Ghost(self.v@ / o.v@) } }
}
impl core::ops::Sub for FT { type Output = FT; #[verifier::external_body] fn sub(self, o: FT) -> (r: FT) { unimplemented!() } }
impl SubSpecImpl<FT> for FT {
    open spec fn obeys_sub_spec() -> bool { true }
    open spec fn sub_req(self, o: FT) -> bool { true }
    open spec fn sub_spec(self, o: FT) -> FT { FT { v: Ghost(self.v@ - o.v@) } }
}
pub uninterp spec fn sqrt_spec(x: real) -> real;
impl FT {
    #[verifier::external_body] pub fn from_usize(n: usize) -> (r: FT) ensures r.v@ == (n as int) as real { unimplemented!() }
    #[verifier::external_body] pub fn one() -> (r: FT) ensures r.v@ == 1real { unimplemented!() }
    #[verifier::external_body] pub fn sqrt_abs(self) -> (r: FT) ensures r.v@ == sqrt_spec(self.v@) { unimplemented!() }
}
// ---- matrices and vectors are known by the expression that produced them ----
pub enum ME { Input(int), SubRow(Box<ME>, Box<VE>), SvdU(Box<ME>, int), SvdVt(Box<ME>, int) }      // SvdU / SvdVt / SvdSigma(m, k): the k LARGEST singular triplets of m
pub enum VE { ColMean(Box<ME>), SvdSigma(Box<ME>, int), Clip(Box<VE>) }
pub uninterp spec fn vec_vals(e: VE) -> Seq<real>;      // the numbers in the vector `e`
pub struct Axis(pub usize);
pub struct VecTok { pub e: Ghost<VE>, pub v: Ghost<Seq<real>> }
pub struct MatTok { pub e: Ghost<ME>, pub rows: Ghost<int>, pub scale: Ghost<Seq<real>> }   // scale[i]: factor row i has been multiplied with since `e`
impl VecTok {
    #[verifier::external_body] pub fn len(&self) -> (r: usize) ensures r == self.v@.len() { unimplemented!() }
    #[verifier::external_body] pub fn at_abs(&self, i: usize) -> (r: FT) requires i < self.v@.len(), ensures r.v@ == self.v@[i as int] { unimplemented!() }
    // sigma.mapv(|x| x.max(1e-8)): element-wise lower clipping at 1e-8 (ASSUMED meaning of the closure; the closure text is the rewrite literal)
    #[verifier::external_body] pub fn mapv_clip_abs(&self) -> (r: VecTok)
        ensures r.e@ == VE::Clip(Box::new(self.e@)), r.v@.len() == self.v@.len(),
            forall|i: int| 0 <= i < self.v@.len() ==> #[trigger] r.v@[i] == (if self.v@[i] >= 0.00000001real { self.v@[i] } else { 0.00000001real }),
    { unimplemented!() }
}
impl MatTok {
    // ASSUMED of ndarray: mean over axis 0 is the vector of column means; None exactly for an array without rows
    #[verifier::external_body] pub fn mean_axis(&self, a: Axis) -> (r: Option<VecTok>)
        ensures self.rows@ > 0 ==> r.is_some(), r.is_some() && a.0 == 0 ==> r.unwrap().e@ == VE::ColMean(Box::new(self.e@)),
    { unimplemented!() }
    // ASSUMED of ndarray: matrix - &row_vector subtracts the vector from every row (broadcast)
    #[verifier::external_body] pub fn sub_row_abs(&self, v: &VecTok) -> (r: MatTok)
        ensures r.e@ == ME::SubRow(Box::new(self.e@), Box::new(v.e@)), r.rows@ == self.rows@,
    { unimplemented!() }
    #[verifier::external_body] pub fn scale_row_abs(&mut self, i: usize, f: FT)
        requires i < old(self).scale@.len(),
        ensures final(self).e@ == old(self).e@, final(self).rows@ == old(self).rows@, final(self).scale@ == old(self).scale@.update(i as int, old(self).scale@[i as int] * f.v@),
    { unimplemented!() }
}
#[derive(PartialEq, Eq)]
pub enum Order { Largest, Smallest }
pub struct SmallRng { pub seed: u64 }
impl SmallRng { pub fn seed_from_u64(s: u64) -> (r: SmallRng) ensures r.seed == s { SmallRng { seed: s } } }
pub struct TruncatedSvd { pub of: MatTok, pub order: Order }
pub struct SvdResult { pub of: Ghost<ME>, pub k: Ghost<int>, pub order: Order }
#[derive(PartialEq, Eq, Debug)]
pub enum ReductionError { NotEnoughSamples, EmbeddingTooSmall(usize), LinalgError }
impl TruncatedSvd {
    pub fn new_with_rng(x: MatTok, order: Order, rng: SmallRng) -> (r: TruncatedSvd) ensures r.of == x, r.order == order { TruncatedSvd { of: x, order } }
    // ASSUMED of linfa-linalg (LOBPCG): may fail; on success the result describes the k extreme singular triplets of the matrix it was given
    #[verifier::external_body] pub fn decompose(self, k: usize) -> (r: Result<SvdResult, ReductionError>)
        ensures r.is_ok() ==> r.unwrap().of@ == self.of.e@ && r.unwrap().k@ == k && r.unwrap().order == self.order,
            r matches Err(e) ==> e == ReductionError::LinalgError,
    { unimplemented!() }
}
impl SvdResult {
    // ASSUMED: (U, sigma, V^T) with sigma in non-increasing order for Order::Largest, one row of V^T per singular value, rows unscaled
    #[verifier::external_body] pub fn values_vectors(self) -> (r: (MatTok, VecTok, MatTok))
        ensures self.order == Order::Largest ==> r.0.e@ == ME::SvdU(Box::new(self.of@), self.k@) && r.1.e@ == VE::SvdSigma(Box::new(self.of@), self.k@) && r.2.e@ == ME::SvdVt(Box::new(self.of@), self.k@),
            r.2.scale@.len() == r.1.v@.len(), forall|i: int| 0 <= i < r.2.scale@.len() ==> #[trigger] r.2.scale@[i] == 1real,
            r.1.v@ == vec_vals(r.1.e@),
    { unimplemented!() }
}
pub struct DatasetV { pub rec: MatTok, pub n: usize, pub p: usize }
impl DatasetV {
    pub fn nsamples(&self) -> (r: usize) ensures r == self.n { self.n }
    pub fn nfeatures(&self) -> (r: usize) ensures r == self.p { self.p }
    pub fn records(&self) -> (r: &MatTok) ensures *r == self.rec { &self.rec }
}
pub struct PcaV { pub embedding: MatTok, pub sigma: VecTok, pub mean: VecTok, pub n_samples: usize }
pub open spec fn centred(x: ME) -> ME { ME::SubRow(Box::new(x), Box::new(VE::ColMean(Box::new(x)))) }
pub open spec fn clip(x: real) -> real { if x >= 0.00000001real { x } else { 0.00000001real } }

pub struct PcaParamsV { pub embedding_size: usize, pub apply_whitening: bool }
impl PcaParamsV {
    // C18: "an empty dataset or an embedding size outside 1..p is an error"; the components are the right singular vectors of the
    // CENTRED training data for the LARGEST singular values, `embedding_size` of them; the model's mean is the column mean; the number of
    // samples behind the explained variances is the training set's; with whitening component i is scaled by sqrt(n-1)/sigma_i
    // (which makes the projected training data's covariance the identity), without it the components are left as the SVD returned them
    pub fn fit(&self, dataset: &DatasetV) -> (r: Result<PcaV, ReductionError>)
        requires dataset.rec.rows@ == dataset.n,
        ensures
            dataset.n == 0 ==> r == Err::<PcaV, ReductionError>(ReductionError::NotEnoughSamples),
            dataset.n > 0 && (self.embedding_size == 0 || self.embedding_size > dataset.p) ==> r == Err::<PcaV, ReductionError>(ReductionError::EmbeddingTooSmall(self.embedding_size)),
            dataset.n > 0 && 1 <= self.embedding_size <= dataset.p ==> (r.is_ok() || r == Err::<PcaV, ReductionError>(ReductionError::LinalgError)),
            r.is_ok() ==> {
                let m = r.unwrap();
                let c = centred(dataset.rec.e@);
                let s0 = vec_vals(VE::SvdSigma(Box::new(c), self.embedding_size as int));
                &&& m.mean.e@ == VE::ColMean(Box::new(dataset.rec.e@))
                &&& m.embedding.e@ == ME::SvdVt(Box::new(c), self.embedding_size as int)
                &&& m.n_samples == dataset.n
                &&& m.sigma.v@.len() == s0.len()
                &&& forall|i: int| 0 <= i < s0.len() ==> #[trigger] m.sigma.v@[i] == clip(s0[i])
                &&& m.embedding.scale@.len() == s0.len()
                &&& forall|i: int| 0 <= i < s0.len() ==> #[trigger] m.embedding.scale@[i] == (if self.apply_whitening { sqrt_spec((dataset.n as int) as real - 1real) / clip(s0[i]) } else { 1real })
            },
    {
/*@FIT*/
    }
    pub fn vacuity_guard_fit(&self, dataset: &DatasetV) -> (r: Result<PcaV, ReductionError>)
        requires dataset.rec.rows@ == dataset.n,
        ensures false,
    {
        Err(ReductionError::NotEnoughSamples)
    }
}
} // verus!
fn main() {}
