//! property: C03
//! attach: src/composing/multi_target_model.rs
//! module: vk_c03_mtarget
// @include common/prelude.rs
use super::*;
use crate::traits::Predict;

// Member model: an arbitrary per-row single-target model (symbolic table over a 2-bit row tag).
// Every member has its own symbolic table, so "column j is model j's prediction" cannot hold
// by accident for a transposed / reshaped / permuted output.
struct ColModel { t: [u8; 4] }
impl ColModel {
    fn f(&self, tag: u8) -> u8 { self.t[(tag & 3) as usize] }
}
impl PredictInplace<Array2<u8>, Array1<u8>> for ColModel {
    fn predict_inplace<'a>(&'a self, x: &'a Array2<u8>, y: &mut Array1<u8>) {
        assert!(x.nrows() == y.len(), "The number of data points must match the number of output targets.");
        let mut i = 0;
        while i < x.nrows() { y[i] = self.f(x[(i, 0)]); i += 1; }
    }
    fn default_target(&self, x: &Array2<u8>) -> Array1<u8> { Array1::zeros(x.nrows()) }
}

// Oracle, from the statement: shape (rows, models); y[i][j] == model_j(row_i).
fn check_mt<const M: usize, const N: usize>(via_blanket: bool) -> Array2<u8> {
    let tables: [[u8; 4]; M] = kani::any();
    let r: [u8; N] = kani::any();
    let x = Array2::from_shape_vec((N, 1), r.to_vec()).unwrap();
    let mut models = Vec::new();
    let mut j = 0;
    while j < M { models.push(ColModel { t: tables[j] }); j += 1; }
    let mt: MultiTargetModel<Array2<u8>, u8> = models.into_iter().collect();
    let y: Array2<u8> = if via_blanket {
        mt.predict(&x)
    } else {
        let mut y = mt.default_target(&x);
        mt.predict_inplace(&x, &mut y);
        y
    };
    assert!(y.nrows() == N && y.ncols() == M);
    let mut i = 0;
    while i < N {
        let mut j = 0;
        while j < M {
            assert!(y[(i, j)] == tables[j][(r[i] & 3) as usize]);
            j += 1;
        }
        i += 1;
    }
    // the input records are untouched
    let mut i = 0;
    while i < N { assert!(x[(i, 0)] == r[i]); i += 1; }
    y
}

// @unit class=bounded tier=quick mem=light bound="models=2,rows=3" timeout=900 fns=linfa::composing::MultiTargetModel::predict_inplace,linfa::composing::MultiTargetModel::default_target,linfa::composing::MultiTargetModel::from_iter
#[kani::proof]
#[kani::unwind(8)]
#[kani::stub(alloc::fmt::format, fmt_stub)]
fn c03_multitarget_m2_n3() {
    let y = check_mt::<2, 3>(true);
    kani::cover!(y[(0, 0)] != y[(0, 1)] && y[(0, 0)] != y[(1, 0)] && y[(1, 0)] != y[(2, 0)] && y[(2, 0)] != y[(2, 1)]);
}

// @unit class=bounded tier=thorough mem=light bound="models=3,rows=2" timeout=900 fns=linfa::composing::MultiTargetModel::predict_inplace,linfa::composing::MultiTargetModel::default_target,linfa::composing::MultiTargetModel::from_iter
#[kani::proof]
#[kani::unwind(8)]
#[kani::stub(alloc::fmt::format, fmt_stub)]
fn c03_multitarget_m3_n2() {
    let y = check_mt::<3, 2>(false);
    kani::cover!(y[(0, 0)] != y[(0, 1)] && y[(0, 1)] != y[(0, 2)] && y[(0, 0)] != y[(1, 0)]);
}

// @unit class=bounded tier=thorough mem=light bound="models=3,rows=3" timeout=1200 fns=linfa::composing::MultiTargetModel::predict_inplace,linfa::composing::MultiTargetModel::default_target,linfa::composing::MultiTargetModel::from_iter
#[kani::proof]
#[kani::unwind(11)]
#[kani::stub(alloc::fmt::format, fmt_stub)]
fn c03_multitarget_m3_n3() {
    let y = check_mt::<3, 3>(true);
    kani::cover!(y[(0, 1)] != y[(1, 0)] && y[(0, 2)] != y[(2, 0)] && y[(1, 2)] != y[(2, 1)]);
}

// corner shapes: one model one row; an empty batch; a wrapper without members
// @unit class=bounded tier=thorough mem=light bound="models x rows=1x1;2x0;0x2" timeout=900 fns=linfa::composing::MultiTargetModel::predict_inplace,linfa::composing::MultiTargetModel::default_target,linfa::composing::MultiTargetModel::from_iter
#[kani::proof]
#[kani::unwind(6)]
#[kani::stub(alloc::fmt::format, fmt_stub)]
fn c03_multitarget_corners() {
    let y = check_mt::<1, 1>(true);
    kani::cover!(y[(0, 0)] == 5);
    let e = check_mt::<2, 0>(true);
    assert!(e.nrows() == 0 && e.ncols() == 2);
    let z = check_mt::<0, 2>(true);
    assert!(z.nrows() == 2 && z.ncols() == 0);
}
