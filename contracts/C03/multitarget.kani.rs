//! property: C03
//! attach: src/composing/multi_target_model.rs
//! module: vk_c03_mtarget
// @include common/prelude.rs
use super::*;
use crate::traits::Predict;

// Member model: an arbitrary per-row single-target model - a symbolic table over a 2-bit tag of
// the row.  Every member has its own symbolic table, so "column j is model j's prediction" cannot
// hold by accident for a transposed / reshaped / permuted output.
// The witness is straight-line for N <= 3 rows (measured: CBMC cannot resolve the end of the
// wrapper's flat_map/collect iteration, so every loop inside a member is re-unrolled in
// unwind^2 contexts; a loop-free member keeps the 3x3 instance at ~4 min instead of out-of-memory).
struct ColN<const N: usize> { t: [u8; 4] }
impl<const N: usize> PredictInplace<Array2<u8>, Array1<u8>> for ColN<N> {
    fn predict_inplace<'a>(&'a self, x: &'a Array2<u8>, y: &mut Array1<u8>) {
        assert!(x.nrows() == N && y.len() == N, "The number of data points must match the number of output targets.");
        if N > 0 { y[0] = self.t[(x[(0, 0)] & 3) as usize]; }
        if N > 1 { y[1] = self.t[(x[(1, 0)] & 3) as usize]; }
        if N > 2 { y[2] = self.t[(x[(2, 0)] & 3) as usize]; }
    }
    fn default_target(&self, x: &Array2<u8>) -> Array1<u8> { Array1::zeros(x.nrows()) }
}
type Member = Box<dyn PredictInplace<Array2<u8>, Array1<u8>>>;
fn member<const N: usize>(t: [u8; 4]) -> Member { Box::new(ColN::<N> { t }) }

// Oracle, from the statement: output shape (rows, models); y[i][j] == model_j(row_i);
// exactly one output row per input row.
fn check<const M: usize, const N: usize>(y: &Array2<u8>, t: &[[u8; 4]; M], r: &[u8; N]) {
    assert!(y.nrows() == N && y.ncols() == M);
    let mut i = 0;
    while i < N {
        let mut j = 0;
        while j < M { assert!(y[(i, j)] == t[j][(r[i] & 3) as usize]); j += 1; }
        i += 1;
    }
}

// @unit class=bounded tier=quick mem=heavy bound="models=2,rows=2" timeout=900 fns=linfa::composing::MultiTargetModel::predict_inplace,linfa::composing::MultiTargetModel::default_target,linfa::composing::MultiTargetModel::new
#[kani::proof]
#[kani::unwind(5)]
#[kani::stub(alloc::fmt::format, fmt_stub)]
fn c03_multitarget_m2_n2() {
    let t: [[u8; 4]; 2] = kani::any();
    let r: [u8; 2] = kani::any();
    let x = Array2::from_shape_vec((2, 1), vec![r[0], r[1]]).unwrap();
    let mt: MultiTargetModel<Array2<u8>, u8> = MultiTargetModel::new(vec![member::<2>(t[0]), member::<2>(t[1])]);
    let mut y = mt.default_target(&x);
    mt.predict_inplace(&x, &mut y);
    check::<2, 2>(&y, &t, &r);
    assert!(x[(0, 0)] == r[0] && x[(1, 0)] == r[1]);
    kani::cover!(y[(0, 1)] != y[(1, 0)]);       // transposition would be visible
}

// @unit class=bounded tier=thorough mem=heavy bound="models=2,rows=3" timeout=1200 fns=linfa::composing::MultiTargetModel::predict_inplace,linfa::composing::MultiTargetModel::default_target,linfa::composing::MultiTargetModel::new
#[kani::proof]
#[kani::unwind(7)]
#[kani::stub(alloc::fmt::format, fmt_stub)]
fn c03_multitarget_m2_n3() {
    let t: [[u8; 4]; 2] = kani::any();
    let r: [u8; 3] = kani::any();
    let x = Array2::from_shape_vec((3, 1), vec![r[0], r[1], r[2]]).unwrap();
    let mt: MultiTargetModel<Array2<u8>, u8> = MultiTargetModel::new(vec![member::<3>(t[0]), member::<3>(t[1])]);
    let y: Array2<u8> = mt.predict(&x);
    check::<2, 3>(&y, &t, &r);
    kani::cover!(y[(0, 1)] != y[(1, 0)] && y[(2, 0)] != y[(1, 1)]);
}

// @unit class=bounded tier=thorough mem=heavy bound="models=3,rows=3" timeout=1800 fns=linfa::composing::MultiTargetModel::predict_inplace,linfa::composing::MultiTargetModel::default_target,linfa::composing::MultiTargetModel::from_iter
#[kani::proof]
#[kani::unwind(10)]
#[kani::stub(alloc::fmt::format, fmt_stub)]
fn c03_multitarget_m3_n3() {
    let t: [[u8; 4]; 3] = kani::any();
    let r: [u8; 3] = kani::any();
    let x = Array2::from_shape_vec((3, 1), vec![r[0], r[1], r[2]]).unwrap();
    let mt: MultiTargetModel<Array2<u8>, u8> = vec![ColN::<3> { t: t[0] }, ColN::<3> { t: t[1] }, ColN::<3> { t: t[2] }].into_iter().collect();
    let y: Array2<u8> = mt.predict(&x);
    check::<3, 3>(&y, &t, &r);
    kani::cover!(y[(0, 1)] != y[(1, 0)] && y[(0, 2)] != y[(2, 0)] && y[(1, 2)] != y[(2, 1)]);
}

// more models than rows
// @unit class=bounded tier=thorough mem=heavy bound="models=3,rows=1" timeout=1200 fns=linfa::composing::MultiTargetModel::predict_inplace,linfa::composing::MultiTargetModel::default_target,linfa::composing::MultiTargetModel::new
#[kani::proof]
#[kani::unwind(5)]
#[kani::stub(alloc::fmt::format, fmt_stub)]
fn c03_multitarget_m3_n1() {
    let t: [[u8; 4]; 3] = kani::any();
    let r: [u8; 1] = kani::any();
    let x1 = Array2::from_shape_vec((1, 1), vec![r[0]]).unwrap();
    let mt: MultiTargetModel<Array2<u8>, u8> = MultiTargetModel::new(vec![member::<1>(t[0]), member::<1>(t[1]), member::<1>(t[2])]);
    let y: Array2<u8> = mt.predict(&x1);
    check::<3, 1>(&y, &t, &r);
    kani::cover!(y[(0, 0)] != y[(0, 1)] && y[(0, 1)] != y[(0, 2)]);
}

// an empty batch: shape (0, models)
// @unit class=bounded tier=thorough mem=heavy bound="models=2,rows=0" timeout=1200 fns=linfa::composing::MultiTargetModel::predict_inplace,linfa::composing::MultiTargetModel::default_target,linfa::composing::MultiTargetModel::new
#[kani::proof]
#[kani::unwind(4)]
#[kani::stub(alloc::fmt::format, fmt_stub)]
fn c03_multitarget_m2_n0() {
    let t: [[u8; 4]; 2] = kani::any();
    let x0 = Array2::from_shape_vec((0, 1), vec![]).unwrap();
    let mt0: MultiTargetModel<Array2<u8>, u8> = MultiTargetModel::new(vec![member::<0>(t[0]), member::<0>(t[1])]);
    let e: Array2<u8> = mt0.predict(&x0);
    assert!(e.nrows() == 0 && e.ncols() == 2);
    kani::cover!(t[0][0] != t[1][0]);
}

// A member that hands its prediction back in a NON-STANDARD LAYOUT (negative stride: the buffer holds the values in reverse order).
// C03: "for any ... memory layout ... column j of a multi-target wrapper is model j's prediction".  Repaired defect (/repo 8c92003):
// the wrapper flattened members' outputs with into_raw_vec(), i.e. in memory order.
struct Rev2 { t: [u8; 4] }
impl PredictInplace<Array2<u8>, Array1<u8>> for Rev2 {
    fn predict_inplace<'a>(&'a self, x: &'a Array2<u8>, y: &mut Array1<u8>) {
        assert!(x.nrows() == 2 && y.len() == 2, "The number of data points must match the number of output targets.");
        let mut v = Array1::from(vec![self.t[(x[(1, 0)] & 3) as usize], self.t[(x[(0, 0)] & 3) as usize]]);
        v.invert_axis(Axis(0));
        *y = v;
    }
    fn default_target(&self, x: &Array2<u8>) -> Array1<u8> { Array1::zeros(x.nrows()) }
}
// @unit class=bounded tier=quick mem=heavy bound="models=2,rows=2; second member returns a negative-stride array" timeout=900 fns=linfa::composing::MultiTargetModel::predict_inplace
#[kani::proof]
#[kani::unwind(5)]
#[kani::stub(alloc::fmt::format, fmt_stub)]
fn c03_multitarget_m2_n2_reversed_layout() {
    let t: [[u8; 4]; 2] = kani::any();
    let r: [u8; 2] = kani::any();
    let x = Array2::from_shape_vec((2, 1), vec![r[0], r[1]]).unwrap();
    let mt: MultiTargetModel<Array2<u8>, u8> = MultiTargetModel::new(vec![member::<2>(t[0]), Box::new(Rev2 { t: t[1] })]);
    let mut y = mt.default_target(&x);
    mt.predict_inplace(&x, &mut y);
    check::<2, 2>(&y, &t, &r);
    kani::cover!(y[(0, 1)] != y[(1, 1)]);       // a reversed column would be visible
}
