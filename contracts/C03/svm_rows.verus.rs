//! property: C03
//! unit: V-C03-svm-rows
//! tier: quick
//! fns: linfa_svm::Svm::predict_inplace (bool labels), linfa_svm::Svm::predict_inplace (Pr, Platt-calibrated), linfa_svm::Svm::predict_inplace (regression values)
//@ extract BOOLP from algorithms/linfa-svm/src/classification.rs anchor "for (data, target) in data.outer_iter().zip(targets.iter_mut()) {" block after "impl<F: Float, D: Data<Elem = F>> PredictInplace<ArrayBase<D, Ix2>, Array1<bool>> for Svm<F, bool> {"
//@ rewrite BOOLP "for (data, target) in data.outer_iter().zip(targets.iter_mut()) {" => "for i in 0..n { let data = batch.row_tok(i);   /* for (data, target) in data.outer_iter().zip(targets.iter_mut()): row i and output i */"
//@ rewrite BOOLP "self.weighted_sum(&data) - self.rho" => "self.decision_abs(&data)   /* self.weighted_sum(&data) - self.rho */"
//@ rewrite BOOLP "*target = val >= F::zero();" => "targets.set(i, val.ge_zero());   /* *target = val >= F::zero() */"
//@ insert BOOLP before-brace "for i in 0..n " : invariant n == batch.n@, targets.v@.len() == n, forall|s: int| 0 <= s < i ==> #[trigger] targets.v@[s] == Out::Label(s),
//@ extract PRP from algorithms/linfa-svm/src/classification.rs anchor "for (data, target) in data.outer_iter().zip(targets.iter_mut()) {" block after "impl<F: Float, D: Data<Elem = F>> PredictInplace<ArrayBase<D, Ix2>, Array1<Pr>> for Svm<F, Pr> {"
//@ rewrite PRP "for (data, target) in data.outer_iter().zip(targets.iter_mut()) {" => "for i in 0..n { let data = batch.row_tok(i);   /* row i and output i */"
//@ rewrite PRP "self.weighted_sum(&data) - self.rho" => "self.decision_abs(&data)"
//@ rewrite PRP "*target = platt_predict(val, a, b);" => "targets.set(i, platt_predict_abs(val, a, b));"
//@ insert PRP before-brace "for i in 0..n " : invariant n == batch.n@, targets.v@.len() == n, forall|s: int| 0 <= s < i ==> #[trigger] targets.v@[s] == Out::Platt(s),
//@ extract REGP from algorithms/linfa-svm/src/regression.rs anchor "for (data, target) in data.outer_iter().zip(targets.iter_mut()) {" block
//@ rewrite REGP "for (data, target) in data.outer_iter().zip(targets.iter_mut()) {" => "for i in 0..n { let data = batch.row_tok(i);   /* row i and output i */"
//@ rewrite REGP "*target = self.weighted_sum(&data) - self.rho;" => "targets.set(i, self.decision_abs(&data).value());   /* *target = self.weighted_sum(&data) - self.rho */"
//@ insert REGP before-brace "for i in 0..n " : invariant n == batch.n@, targets.v@.len() == n, forall|s: int| 0 <= s < i ==> #[trigger] targets.v@[s] == Out::Value(s),
//@ expect-fail vacuity_guard_svm_rows
use vstd::prelude::*;
verus! {
// what output s may be: a function of row s and the model only
pub enum Out { Init, Label(int), Platt(int), Value(int) }      // sign of / Platt transform of / value of the decision function of row s
pub struct RowTok { pub s: Ghost<int> }
pub struct BatchTok { pub n: Ghost<int> }
impl BatchTok { #[verifier::external_body] pub fn row_tok(&self, i: usize) -> (r: RowTok) requires i < self.n@, ensures r.s@ == i { unimplemented!() } }
pub struct DecTok { pub s: Ghost<int> }                           // weighted_sum(row s) - rho
pub struct OutTok { pub o: Ghost<Out> }
impl DecTok {
    #[verifier::external_body] pub fn ge_zero(&self) -> (r: OutTok) ensures r.o@ == Out::Label(self.s@) { unimplemented!() }
    #[verifier::external_body] pub fn value(&self) -> (r: OutTok) ensures r.o@ == Out::Value(self.s@) { unimplemented!() }
}
#[derive(Clone, Copy)]
pub struct CoefTok;
#[verifier::external_body] pub fn platt_predict_abs(v: DecTok, a: CoefTok, b: CoefTok) -> (r: OutTok) ensures r.o@ == Out::Platt(v.s@) { unimplemented!() }
pub struct OutVec { pub v: Ghost<Seq<Out>> }
impl OutVec { #[verifier::external_body] pub fn set(&mut self, i: usize, o: OutTok) requires i < old(self).v@.len(), ensures final(self).v@ == old(self).v@.update(i as int, o.o@) { unimplemented!() } }
pub struct SvmV;
impl SvmV {
    #[verifier::external_body] pub fn decision_abs(&self, r: &RowTok) -> (d: DecTok) ensures d.s@ == r.s@ { unimplemented!() }
    #[verifier::external_body] pub fn coeffs(&self) -> (r: (CoefTok, CoefTok)) { unimplemented!() }

    // ---- the three row loops, extracted from /repo on every run ----
    // C03: output i is a function of row i and the model only - for every batch length
    pub fn predict_bool(&self, batch: &BatchTok, targets: &mut OutVec, n: usize)
        requires n == batch.n@, old(targets).v@.len() == n,
        ensures final(targets).v@.len() == n, forall|s: int| 0 <= s < n ==> #[trigger] final(targets).v@[s] == Out::Label(s),
    {
/*@BOOLP*/
    }
    pub fn predict_pr(&self, batch: &BatchTok, targets: &mut OutVec, n: usize)
        requires n == batch.n@, old(targets).v@.len() == n,
        ensures final(targets).v@.len() == n, forall|s: int| 0 <= s < n ==> #[trigger] final(targets).v@[s] == Out::Platt(s),
    {
        let (a, b) = self.coeffs();
/*@PRP*/
    }
    pub fn predict_value(&self, batch: &BatchTok, targets: &mut OutVec, n: usize)
        requires n == batch.n@, old(targets).v@.len() == n,
        ensures final(targets).v@.len() == n, forall|s: int| 0 <= s < n ==> #[trigger] final(targets).v@[s] == Out::Value(s),
    {
/*@REGP*/
    }
    pub fn vacuity_guard_svm_rows(&self, batch: &BatchTok, targets: &mut OutVec, n: usize)
        requires n == batch.n@, old(targets).v@.len() == n,
        ensures false,
    {
    }
}
} // verus!
fn main() {}
