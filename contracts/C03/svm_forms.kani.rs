//! property: C03
//! attach: algorithms/linfa-svm/src/classification.rs
//! module: vk_c03_svm_forms
// @include common/prelude.rs
use crate::{ExitReason, SeparatingHyperplane, Svm};
use linfa::traits::{Predict, PredictInplace};
use linfa_kernel::KernelMethod;
use ndarray::{Array1, Array2};
use std::marker::PhantomData;

// C03: "the calling forms ... return the same values" and "predicting a batch yields, row by row, what predicting each row alone
// yields" for SVM classification: the single-sample form `predict(row)` and the batch form must agree on EVERY row - in particular
// on rows whose decision value is exactly 0 (the label is the sign of the decision value, >= 0 is the positive class).
// A linear model with one feature is enough: decision value = w*x - rho, all of w, rho, x symbolic small integers (exact).
fn linear_model(w: f32, rho: f32) -> Svm<f32, bool> {
    Svm {
        alpha: vec![1.0],
        rho,
        r: None,
        exit_reason: ExitReason::ReachedThreshold,
        iterations: 0,
        obj: 0.0,
        kernel_method: KernelMethod::Linear,
        sep_hyperplane: SeparatingHyperplane::Linear(Array1::from(vec![w])),
        probability_coeffs: None,
        phantom: PhantomData,
    }
}
fn small(b: i8) -> f32 { let c: i8 = kani::any(); kani::assume(c >= -b && c <= b); c as f32 }

// @unit class=bounded tier=quick mem=light timeout=900 bound="linear model, 1 feature, 2 rows, integer-valued weight, rho and inputs in [-8,8]" fns=linfa_svm::Svm::predict,linfa_svm::Svm::predict_inplace,linfa_svm::Svm::weighted_sum
#[kani::proof]
#[kani::unwind(5)]
#[kani::stub(alloc::fmt::format, fmt_stub)]
fn c03_svm_classification_forms_agree() {
    let (w, rho) = (small(8), small(8));
    let x = [small(8), small(8)];
    let model = linear_model(w, rho);
    let batch = Array2::from_shape_vec((2, 1), x.to_vec()).unwrap();
    let by_batch: Array1<bool> = model.predict(&batch);
    assert!(by_batch.len() == 2);
    for i in 0..2 {
        let alone: bool = model.predict(Array1::from(vec![x[i]]));
        assert!(alone == by_batch[i]);                               // every calling form, every row
        assert!(alone == (w * x[i] - rho >= 0.0));                   // label = sign of the decision value, 0 counts as positive
    }
    kani::cover!(w * x[0] - rho == 0.0 && w != 0.0);
    kani::cover!(by_batch[0] != by_batch[1]);
}
