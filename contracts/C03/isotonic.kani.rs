//! property: C03
//! attach: algorithms/linfa-linear/src/isotonic.rs
//! module: vk_c03_isotonic
// @include common/prelude.rs
use super::*;
use linfa::traits::Predict;
use ndarray::Array2;

// Per-row independence of the isotonic predictor, stated as the metamorphic relation of the
// property text ("predicting a batch yields, row by row, what predicting each row alone yields, for
// any batch composition, row order or memory layout"): no formula of the interpolation is
// restated here.  Fitted model: three knots with strictly increasing regressor values and
// responses; knots, responses: symbolic integers in [-8,8]; queries: symbolic half-integers in [-4,4]
// (measured: with arbitrary finite f32 values none of the units finished in 15 min; a second unit
// comparing the batch with its permutation and with a strided view did not finish in 20 min even on
// the small-integer domain and was removed).
fn same(a: f32, b: f32) -> bool { a == b || (a.is_nan() && b.is_nan()) }
fn small() -> f32 {
    let i: i8 = kani::any();
    kani::assume(i >= -8 && i <= 8);
    i as f32
}
fn any_model() -> FittedIsotonicRegression<f32> {
    let k: [f32; 3] = [small(), small(), small()];
    let v: [f32; 3] = [small(), small(), small()];
    kani::assume(k[0] < k[1] && k[1] < k[2]);
    FittedIsotonicRegression { regressor: Array1::from(vec![k[0], k[1], k[2]]), response: Array1::from(vec![v[0], v[1], v[2]]) }
}

// @unit class=bounded tier=thorough mem=light bound="rows=2,knots=3,small ints" timeout=2400 fns=linfa_linear::isotonic::FittedIsotonicRegression::predict_inplace,linfa_linear::isotonic::FittedIsotonicRegression::default_target
#[kani::proof]
#[kani::unwind(6)]
#[kani::stub(alloc::fmt::format, fmt_stub)]
fn c03_isotonic_rowwise_n2() {
    let m = any_model();
    let q: [f32; 2] = [small() * 0.5, small() * 0.5];
    // each row alone
    let a: Array1<f32> = m.predict(&Array2::from_shape_vec((1, 1), vec![q[0]]).unwrap());
    let b: Array1<f32> = m.predict(&Array2::from_shape_vec((1, 1), vec![q[1]]).unwrap());
    assert!(a.len() == 1 && b.len() == 1);
    // the batch
    let x = Array2::from_shape_vec((2, 1), vec![q[0], q[1]]).unwrap();
    let both: Array1<f32> = m.predict(&x);
    assert!(both.len() == 2);
    assert!(same(both[0], a[0]) && same(both[1], b[0]));
    kani::cover!(both[0] != both[1]);
    kani::cover!(q[0] > m.regressor[0] && q[0] < m.regressor[1] && q[1] > m.regressor[1] && q[1] < m.regressor[2]);
    kani::cover!(q[0] < m.regressor[0] && q[1] > m.regressor[2]);
}

// empty batch and single row
// @unit class=bounded tier=thorough mem=light bound="rows=0..1,knots=3,small ints" timeout=600 fns=linfa_linear::isotonic::FittedIsotonicRegression::predict_inplace,linfa_linear::isotonic::FittedIsotonicRegression::default_target
#[kani::proof]
#[kani::unwind(6)]
#[kani::stub(alloc::fmt::format, fmt_stub)]
fn c03_isotonic_rows01() {
    let m = any_model();
    let q: f32 = small() * 0.5;
    let e: Array1<f32> = m.predict(&Array2::from_shape_vec((0, 1), vec![]).unwrap());
    assert!(e.len() == 0);
    let x = Array2::from_shape_vec((1, 1), vec![q]).unwrap();
    let a: Array1<f32> = m.predict(&x);
    let mut y = m.default_target(&x);
    m.predict_inplace(&x, &mut y);
    assert!(a.len() == 1 && y.len() == 1 && same(a[0], y[0]));
    kani::cover!(a[0] != 0.0);
}
