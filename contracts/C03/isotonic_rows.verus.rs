//! property: C03
//! unit: V-C03-isotonic-rows
//! tier: quick
//! fns: linfa_linear::isotonic::FittedIsotonicRegression::predict_inplace (the row loop: what output i depends on)
//@ extract ROWS from algorithms/linfa-linear/src/isotonic.rs anchor "for (i, row) in x.rows().into_iter().enumerate() {" block
//@ rewrite ROWS "for (i, row) in x.rows().into_iter().enumerate() {" => "for i in 0..n_samples { let row = x.row_tok(i);   /* for (i, row) in x.rows().into_iter().enumerate() */"
//@ rewrite ROWS "let val = row[0];" => "let val = row.first();"
//@ rewrite ROWS "val >= x_max" => "val.ge_tok(x_max)"
//@ rewrite ROWS "val <= x_min" => "val.le_tok(x_min)"
//@ rewrite ROWS "y[i] = y_max;" => "y.set(i, y_max);"
//@ rewrite ROWS "y[i] = y_min;" => "y.set(i, y_min);"
//@ rewrite ROWS "regressor.into_iter().position(|x| x >= &val)" => "regressor.first_ge_abs(val)   /* regressor.into_iter().position(|x| x >= &val) */"
//@ rewrite ROWS "val <= regressor[j] && j < n" => "val.le_tok(regressor.at(j)) && j < n"
//@ rewrite ROWS "let x_scale = (val - regressor[j - 1]) / (regressor[j] - regressor[j - 1]);" => "let x_scale = scale_abs(val, regressor.at(j - 1), regressor.at(j));   /* (val - regressor[j - 1]) / (regressor[j] - regressor[j - 1]) */"
//@ rewrite ROWS "y[i] = response[j - 1] + x_scale * (response[j] - response[j - 1]);" => "y.set(i, lerp_abs(response.at(j - 1), x_scale, response.at(j)));   /* response[j - 1] + x_scale * (response[j] - response[j - 1]) */"
//@ insert ROWS before-brace "for i in 0..n_samples " : invariant n_samples == x.n@, y.v@.len() == n_samples, !regressor.resp, response.resp, (forall|s: int| (#[trigger] spec_first_ge(s)) is Some ==> 1 <= spec_first_ge(s).unwrap()), (forall|s: int| i <= s < n_samples ==> #[trigger] y.v@[s] == T::Init(s)), n == regressor.k@.len(), n == response.k@.len(), n >= 1, x_min.t@ == T::Knot(0), x_max.t@ == T::Knot(n - 1), y_min.t@ == T::Resp(0), y_max.t@ == T::Resp(n - 1), forall|s: int| 0 <= s < i ==> #[trigger] y.v@[s] == predicted(s, n as int),
//@ expect-fail vacuity_guard_rows
use vstd::prelude::*;
verus! {
// ---- tokens: a float is a term over the model's knots / responses and the input rows ----
pub enum T { Knot(int), Resp(int), In(int), Scale(int, int), Lerp(int, int, int), Init(int) }     // In(s) = x[s, 0]; Scale(s, j); Lerp(s, j-1, j)
#[derive(Clone, Copy)]
pub struct FTok { pub t: Ghost<T> }
pub uninterp spec fn spec_ge(a: T, b: T) -> bool;
pub uninterp spec fn spec_le(a: T, b: T) -> bool;
pub uninterp spec fn spec_first_ge(input: int) -> Option<int>;          // position of the first knot >= x[input, 0]: depends on that row only
impl FTok {
    #[verifier::external_body] pub fn ge_tok(self, o: FTok) -> (r: bool) ensures r == spec_ge(self.t@, o.t@) { unimplemented!() }
    #[verifier::external_body] pub fn le_tok(self, o: FTok) -> (r: bool) ensures r == spec_le(self.t@, o.t@) { unimplemented!() }
}
pub struct RowTok { pub s: Ghost<int> }
impl RowTok { #[verifier::external_body] pub fn first(&self) -> (r: FTok) ensures r.t@ == T::In(self.s@) { unimplemented!() } }
pub struct XTok { pub n: Ghost<int> }
impl XTok { #[verifier::external_body] pub fn row_tok(&self, i: usize) -> (r: RowTok) requires i < self.n@, ensures r.s@ == i { unimplemented!() } }
pub struct KnotVec { pub k: Ghost<Seq<int>>, pub resp: bool }
impl KnotVec {
    #[verifier::external_body] pub fn at(&self, j: usize) -> (r: FTok) requires j < self.k@.len(), ensures r.t@ == (if self.resp { T::Resp(j as int) } else { T::Knot(j as int) }) { unimplemented!() }
    #[verifier::external_body]
    pub fn first_ge_abs(&self, val: FTok) -> (r: Option<usize>)
        requires val.t@ is In,
        ensures r is Some <==> spec_first_ge(val.t@->In_0) is Some, r is Some ==> r.unwrap() == spec_first_ge(val.t@->In_0).unwrap() && r.unwrap() < self.k@.len(),
    { unimplemented!() }
}
#[verifier::external_body]
pub fn scale_abs(val: FTok, lo: FTok, hi: FTok) -> (r: FTok) requires val.t@ is In, hi.t@ is Knot, ensures r.t@ == T::Scale(val.t@->In_0, hi.t@->Knot_0) { unimplemented!() }
#[verifier::external_body]
pub fn lerp_abs(lo: FTok, scale: FTok, hi: FTok) -> (r: FTok) requires scale.t@ is Scale, lo.t@ is Resp, hi.t@ is Resp, ensures r.t@ == T::Lerp(scale.t@->Scale_0, lo.t@->Resp_0, hi.t@->Resp_0) { unimplemented!() }
pub struct OutVec { pub v: Ghost<Seq<T>> }
impl OutVec { #[verifier::external_body] pub fn set(&mut self, i: usize, val: FTok) requires i < old(self).v@.len(), ensures final(self).v@ == old(self).v@.update(i as int, val.t@) { unimplemented!() } }
// what row s alone determines (C03: "predicting a batch yields, row by row, what predicting each row alone yields"): a function of
// x[s, 0] and the model only - no other row, no position in the batch, no state carried from earlier rows
pub open spec fn predicted(s: int, n: int) -> T {
    if spec_ge(T::In(s), T::Knot(n - 1)) { T::Resp(n - 1) }
    else if spec_le(T::In(s), T::Knot(0)) { T::Resp(0) }
    else { match spec_first_ge(s) {
        Some(j) => if spec_le(T::In(s), T::Knot(j)) && j < n { T::Lerp(s, j - 1, j) } else { T::Resp(0) },
        None => T::Init(s),                                    // the code leaves the output as it was (default target)
    } }
}

// ---- the row loop of predict_inplace, extracted from /repo on every run ----
pub fn predict_rows(x: &XTok, y: &mut OutVec, regressor: &KnotVec, response: &KnotVec, n: usize, n_samples: usize, x_min: FTok, x_max: FTok, y_min: FTok, y_max: FTok)
    requires n_samples == x.n@, old(y).v@.len() == n_samples, n == regressor.k@.len(), n == response.k@.len(), n >= 1, !regressor.resp, response.resp,
        x_min.t@ == T::Knot(0), x_max.t@ == T::Knot(n - 1), y_min.t@ == T::Resp(0), y_max.t@ == T::Resp(n - 1),
        forall|s: int| 0 <= s < n_samples ==> #[trigger] old(y).v@[s] == T::Init(s),
        forall|s: int| (#[trigger] spec_first_ge(s)) is Some ==> 1 <= spec_first_ge(s).unwrap(),        // x > x_min = knot 0, so the first knot >= x is not knot 0
    ensures final(y).v@.len() == n_samples, forall|s: int| 0 <= s < n_samples ==> #[trigger] final(y).v@[s] == predicted(s, n as int),
{
/*@ROWS*/
}
pub fn vacuity_guard_rows(x: &XTok, y: &mut OutVec, regressor: &KnotVec, response: &KnotVec, n: usize, n_samples: usize, x_min: FTok, x_max: FTok, y_min: FTok, y_max: FTok)
    requires n_samples == x.n@, old(y).v@.len() == n_samples, n == regressor.k@.len(), n == response.k@.len(), n >= 1, !regressor.resp, response.resp,
        x_min.t@ == T::Knot(0), x_max.t@ == T::Knot(n - 1), y_min.t@ == T::Resp(0), y_max.t@ == T::Resp(n - 1),
        forall|s: int| 0 <= s < n_samples ==> #[trigger] old(y).v@[s] == T::Init(s),
        forall|s: int| (#[trigger] spec_first_ge(s)) is Some ==> 1 <= spec_first_ge(s).unwrap(),
    ensures false,
{
}
} // verus!
fn main() {}
