//! property: C03
//! attach: src/dataset/impl_dataset.rs
//! module: vk_c03_blanket
// @include common/prelude.rs
use super::*;

// ---------------------------------------------------------------------------------------------
// Contract witness for the generic parameter `O: PredictInplace<..>` of the four blanket `Predict`
// impls (DESIGN 4.2).  The witness is an *arbitrary deterministic per-row model*:
//   * default_target: right length (one slot per row, the only thing the trait documents:
//     "create targets that predict_inplace works with"), arbitrary fill value;
//   * predict_inplace: out[i] = T(row_i, y_in[i]) for an arbitrary (symbolic) table T, i.e. an
//     arbitrary function of the sample *and of what default_target put there* - so a wrapper that
//     calls predict_inplace twice, skips default_target, or hands over other records is visible in
//     the values, not only in the ghost counters.
// It is implemented for every storage `D` (owned arrays and views of any stride), so the same
// witness is used for the layout harness.  Ghost state records what the witness was handed.
// ---------------------------------------------------------------------------------------------
const MAXR: usize = 2;
struct MockModel { table: [u8; 8], fill: u8 }
static mut DT_CALLS: u32 = 0;
static mut PI_CALLS: u32 = 0;
static mut DT_ROWS: usize = 99;
static mut PI_ROWS: usize = 99;
static mut PI_SEEN: [[u8; 2]; MAXR] = [[0; 2]; MAXR];
static mut PI_YIN_IS_DEFAULT: bool = true;
static mut PI_BEFORE_DT: bool = false;

impl MockModel {
    // the per-sample function the witness stands for (row, incoming slot) -> prediction
    fn f(&self, row: [u8; 2], y_in: u8) -> u8 {
        self.table[((row[0] & 1) as usize) * 4 + ((row[1] & 1) as usize) * 2 + (y_in & 1) as usize]
    }
    // what the property says a caller must obtain for a sample
    fn want(&self, row: [u8; 2]) -> u8 { self.f(row, self.fill) }
}
impl<D: Data<Elem = u8>> PredictInplace<ArrayBase<D, Ix2>, Array1<u8>> for MockModel {
    fn predict_inplace<'a>(&'a self, x: &'a ArrayBase<D, Ix2>, y: &mut Array1<u8>) {
        unsafe {
            if DT_CALLS == 0 { PI_BEFORE_DT = true; }
            PI_CALLS += 1;
            PI_ROWS = x.nrows();
        }
        // every PredictInplace implementation in the workspace makes this check
        assert!(x.nrows() == y.len(), "The number of data points must match the number of output targets.");
        let mut i = 0;
        while i < x.nrows() {
            let row = [x[(i, 0)], x[(i, 1)]];
            unsafe {
                if i < MAXR { PI_SEEN[i] = row; }
                if y[i] != self.fill { PI_YIN_IS_DEFAULT = false; }
            }
            y[i] = self.f(row, y[i]);
            i += 1;
        }
    }
    fn default_target(&self, x: &ArrayBase<D, Ix2>) -> Array1<u8> {
        unsafe { DT_CALLS += 1; DT_ROWS = x.nrows(); }
        Array1::from_elem(x.nrows(), self.fill)
    }
}
fn reset() {
    unsafe {
        DT_CALLS = 0; PI_CALLS = 0; DT_ROWS = 99; PI_ROWS = 99;
        PI_SEEN = [[0; 2]; MAXR]; PI_YIN_IS_DEFAULT = true; PI_BEFORE_DT = false;
    }
}
fn any_model() -> MockModel { MockModel { table: kani::any(), fill: kani::any() } }
fn mk_records(n: usize, r: &[[u8; 2]; MAXR]) -> Array2<u8> {
    let mut v = Vec::new();
    let mut i = 0;
    while i < n { v.push(r[i][0]); v.push(r[i][1]); i += 1; }
    Array2::from_shape_vec((n, 2), v).unwrap()
}
// "hand back the input records bit-identical": same shape, same element at every index
fn same_records<D: Data<Elem = u8>>(got: &ArrayBase<D, Ix2>, n: usize, r: &[[u8; 2]; MAXR]) {
    assert!(got.nrows() == n && got.ncols() == 2);
    let mut i = 0;
    while i < n { assert!(got[(i, 0)] == r[i][0] && got[(i, 1)] == r[i][1]); i += 1; }
}
// exactly one output per input row, each the per-sample value; default_target then exactly one
// predict_inplace, both on the records the caller passed
fn check_outputs(m: &MockModel, out: &Array1<u8>, n: usize, r: &[[u8; 2]; MAXR]) {
    assert!(out.len() == n);
    let mut i = 0;
    while i < n { assert!(out[i] == m.want(r[i])); i += 1; }
    unsafe {
        assert!(DT_CALLS == 1 && PI_CALLS == 1);
        assert!(!PI_BEFORE_DT);
        assert!(DT_ROWS == n && PI_ROWS == n);
        assert!(PI_YIN_IS_DEFAULT);
        let mut i = 0;
        while i < n { assert!(PI_SEEN[i][0] == r[i][0] && PI_SEEN[i][1] == r[i][1]); i += 1; }
    }
}

// ---- form 1: &Array -> targets ------------------------------------------------------------
fn ref_array_n(n: usize) -> u8 {
    reset();
    let m = any_model();
    let r: [[u8; 2]; MAXR] = kani::any();
    let x = mk_records(n, &r);
    let out: Array1<u8> = m.predict(&x);
    check_outputs(&m, &out, n, &r);
    same_records(&x, n, &r);
    if n == 2 { kani::cover!(out[0] != out[1]); }
    if n > 0 { out[0] } else { 0 }
}
// @unit class=modular tier=quick mem=light bound="rows=0..2,features=2" timeout=600 fns=linfa::Predict<&ArrayBase>::predict
#[kani::proof]
#[kani::unwind(6)]
#[kani::stub(alloc::fmt::format, fmt_stub)]
fn c03_blanket_ref_array() {
    ref_array_n(0);
    let a = ref_array_n(1);
    ref_array_n(2);
    kani::cover!(a == 7);
}

// ---- form 2: Array -> Dataset -------------------------------------------------------------
fn array_n(n: usize) -> u8 {
    reset();
    let m = any_model();
    let r: [[u8; 2]; MAXR] = kani::any();
    let x = mk_records(n, &r);
    let ds: DatasetBase<Array2<u8>, Array1<u8>> = m.predict(x);
    check_outputs(&m, &ds.targets, n, &r);
    same_records(&ds.records, n, &r);
    if n == 2 { kani::cover!(ds.targets[0] != ds.targets[1]); }
    if n > 0 { ds.targets[0] } else { 0 }
}
// @unit class=modular tier=quick mem=light bound="rows=0..2,features=2" timeout=600 fns=linfa::Predict<ArrayBase>::predict
#[kani::proof]
#[kani::unwind(6)]
#[kani::stub(alloc::fmt::format, fmt_stub)]
fn c03_blanket_array() {
    array_n(0);
    let a = array_n(1);
    array_n(2);
    kani::cover!(a == 7);
}

// ---- form 3: &Dataset -> targets ------------------------------------------------------------
fn ref_dataset_n(n: usize) -> u8 {
    reset();
    let m = any_model();
    let r: [[u8; 2]; MAXR] = kani::any();
    let old: u8 = kani::any();
    let d0 = DatasetBase::new(mk_records(n, &r), Array1::from_elem(n, old));
    let out: Array1<u8> = m.predict(&d0);
    check_outputs(&m, &out, n, &r);
    same_records(&d0.records, n, &r);
    // the borrowed dataset keeps its own targets
    assert!(d0.targets.len() == n);
    let mut i = 0;
    while i < n { assert!(d0.targets[i] == old); i += 1; }
    if n == 2 { kani::cover!(out[0] != out[1]); }
    if n > 0 { out[0] } else { 0 }
}
// @unit class=modular tier=quick mem=light bound="rows=0..2,features=2" timeout=600 fns=linfa::Predict<&DatasetBase>::predict
#[kani::proof]
#[kani::unwind(6)]
#[kani::stub(alloc::fmt::format, fmt_stub)]
fn c03_blanket_ref_dataset() {
    ref_dataset_n(0);
    let a = ref_dataset_n(1);
    ref_dataset_n(2);
    kani::cover!(a == 7);
}

// ---- form 4: Dataset -> Dataset -------------------------------------------------------------
fn dataset_n(n: usize) -> u8 {
    reset();
    let m = any_model();
    let r: [[u8; 2]; MAXR] = kani::any();
    let old: u8 = kani::any();
    let d0 = DatasetBase::new(mk_records(n, &r), Array1::from_elem(n, old));
    let ds: DatasetBase<Array2<u8>, Array1<u8>> = m.predict(d0);
    check_outputs(&m, &ds.targets, n, &r);
    same_records(&ds.records, n, &r);
    if n == 2 { kani::cover!(ds.targets[0] != ds.targets[1]); }
    if n > 0 { ds.targets[0] } else { 0 }
}
// @unit class=modular tier=quick mem=light bound="rows=0..2,features=2" timeout=600 fns=linfa::Predict<DatasetBase>::predict
#[kani::proof]
#[kani::unwind(6)]
#[kani::stub(alloc::fmt::format, fmt_stub)]
fn c03_blanket_dataset() {
    dataset_n(0);
    let a = dataset_n(1);
    dataset_n(2);
    kani::cover!(a == 7);
}

// ---- all four forms on the same model and the same two rows agree element-wise ---------------
// @unit class=modular tier=thorough mem=light bound="rows=2,features=2" timeout=900 fns=linfa::Predict<&ArrayBase>::predict,linfa::Predict<ArrayBase>::predict,linfa::Predict<&DatasetBase>::predict,linfa::Predict<DatasetBase>::predict
#[kani::proof]
#[kani::unwind(6)]
#[kani::stub(alloc::fmt::format, fmt_stub)]
fn c03_blanket_forms_agree() {
    reset();
    let m = any_model();
    let r: [[u8; 2]; MAXR] = kani::any();
    let x = mk_records(2, &r);
    let a: Array1<u8> = m.predict(&x);
    let d0 = DatasetBase::new(mk_records(2, &r), Array1::from_elem(2, 9u8));
    let b: Array1<u8> = m.predict(&d0);
    let c: DatasetBase<Array2<u8>, Array1<u8>> = m.predict(d0);
    let d: DatasetBase<Array2<u8>, Array1<u8>> = m.predict(x);
    assert!(a.len() == 2 && b.len() == 2 && c.targets.len() == 2 && d.targets.len() == 2);
    let mut i = 0;
    while i < 2 {
        assert!(a[i] == b[i] && a[i] == c.targets[i] && a[i] == d.targets[i]);
        assert!(a[i] == m.want(r[i]));
        i += 1;
    }
    same_records(&c.records, 2, &r);
    same_records(&d.records, 2, &r);
    unsafe { assert!(DT_CALLS == 4 && PI_CALLS == 4 && PI_YIN_IS_DEFAULT && !PI_BEFORE_DT); }
    kani::cover!(a[0] != a[1]);
    kani::cover!(a[0] == a[1] && r[0][0] != r[1][0]);
}

// ---- batch composition / row order / memory layout -------------------------------------------
// The same four rows are predicted (a) as a reversed, strided *view* (rows 2,0 of a 4-row
// buffer: negative stride, non-contiguous) through the borrowed and the owned view form and
// (b) as a column-major (Fortran-layout) owned matrix; every output must be the per-sample value
// of the row that sits at that position of the batch, and the view form hands back the view.
// @unit class=modular tier=quick mem=light bound="rows=2of4,features=2" timeout=900 fns=linfa::Predict<&ArrayBase>::predict,linfa::Predict<ArrayBase>::predict
#[kani::proof]
#[kani::unwind(10)]
#[kani::stub(alloc::fmt::format, fmt_stub)]
fn c03_blanket_view_layout() {
    let m = any_model();
    let big: [[u8; 2]; 4] = kani::any();
    let buf = Array2::from_shape_vec((4, 2), vec![big[0][0], big[0][1], big[1][0], big[1][1], big[2][0], big[2][1], big[3][0], big[3][1]]).unwrap();
    let r: [[u8; 2]; MAXR] = [big[2], big[0]];
    // (a) rows 2,0 : step -2 starting from row 2
    let v = buf.slice(s![..3;-2, ..]);
    assert!(v.nrows() == 2 && !v.is_standard_layout());
    reset();
    let out: Array1<u8> = m.predict(&v);
    check_outputs(&m, &out, 2, &r);
    reset();
    let ds: DatasetBase<ArrayView2<u8>, Array1<u8>> = m.predict(v);
    check_outputs(&m, &ds.targets, 2, &r);
    same_records(&ds.records, 2, &r);
    // (b) column-major owned copy of the same two rows
    let f = Array2::from_shape_vec((2, 2).f(), vec![r[0][0], r[1][0], r[0][1], r[1][1]]).unwrap();
    assert!(!f.is_standard_layout());
    reset();
    let out_f: Array1<u8> = m.predict(&f);
    check_outputs(&m, &out_f, 2, &r);
    assert!(out_f[0] == out[0] && out_f[1] == out[1]);
    kani::cover!(out[0] != out[1]);
}
