//! property: C03
//! attach: src/composing/multi_class_model.rs
//! module: vk_c03_mclass
// @include common/prelude.rs
use super::*;
use crate::traits::Predict;
use ndarray::Array2;

// Member model: an arbitrary per-row binary scorer.  The probability it reports for a row is a
// symbolic value in [0,1] (the documented range of `Pr`) selected by a 1-bit tag of the row, so two
// rows may or may not get the same score.  Straight-line for N <= 2 rows (no loop in the witness:
// the iterator loops of the wrapper are what the unwind bound is spent on).
struct PrN<const N: usize> { p: [f32; 2] }
impl<const N: usize> PrN<N> {
    fn f(&self, tag: u8) -> f32 { self.p[(tag & 1) as usize] }
}
impl<const N: usize> PredictInplace<Array2<u8>, Array1<Pr>> for PrN<N> {
    fn predict_inplace<'a>(&'a self, x: &'a Array2<u8>, y: &mut Array1<Pr>) {
        assert!(x.nrows() == N && y.len() == N, "The number of data points must match the number of output targets.");
        if N > 0 { y[0] = Pr::new_unchecked(self.f(x[(0, 0)])); }
        if N > 1 { y[1] = Pr::new_unchecked(self.f(x[(1, 0)])); }
    }
    fn default_target(&self, x: &Array2<u8>) -> Array1<Pr> { Array1::default(x.nrows()) }
}
fn any_probs() -> [f32; 2] {
    let p: [f32; 2] = kani::any();
    kani::assume(p[0] >= 0.0 && p[0] <= 1.0 && p[1] >= 0.0 && p[1] <= 1.0);
    p
}
fn max2(a: f32, b: f32) -> f32 { if a >= b { a } else { b } }

// Oracle, from the statement: the returned label is the label of a member model whose
// probability for that row is the highest (ties: any of the tied members).

// @unit class=bounded tier=quick mem=light bound="models=3,rows=2" timeout=900 fns=linfa::composing::MultiClassModel::predict_inplace,linfa::composing::MultiClassModel::default_target,linfa::composing::MultiClassModel::new
#[kani::proof]
#[kani::unwind(5)]
#[kani::stub(alloc::fmt::format, fmt_stub)]
fn c03_multiclass_m3_n2() {
    let (pa, pb, pc) = (any_probs(), any_probs(), any_probs());
    let lab: [u8; 3] = kani::any();
    kani::assume(lab[0] != lab[1] && lab[0] != lab[2] && lab[1] != lab[2]);
    let r: [u8; 2] = kani::any();
    let x = Array2::from_shape_vec((2, 1), vec![r[0], r[1]]).unwrap();
    let mc: MultiClassModel<Array2<u8>, u8> = MultiClassModel::new(vec![
        (lab[0], Box::new(PrN::<2> { p: pa })), (lab[1], Box::new(PrN::<2> { p: pb })), (lab[2], Box::new(PrN::<2> { p: pc }))]);
    let y: Array1<u8> = mc.predict(&x);
    assert!(y.len() == 2);
    let mut i = 0;
    while i < 2 {
        let t = (r[i] & 1) as usize;
        let best = max2(max2(pa[t], pb[t]), pc[t]);
        assert!((y[i] == lab[0] && pa[t] == best) || (y[i] == lab[1] && pb[t] == best) || (y[i] == lab[2] && pc[t] == best));
        i += 1;
    }
    kani::cover!(y[0] == lab[2] && y[1] == lab[0]);
    kani::cover!(y[0] == lab[1] && y[1] == lab[1] && r[0] != r[1]);
    kani::cover!(pa[(r[0] & 1) as usize] == pb[(r[0] & 1) as usize] && pa[(r[0] & 1) as usize] > pc[(r[0] & 1) as usize]);   // a tie at the top
}

// two members, two rows, built through FromIterator; direct predict_inplace
// @unit class=bounded tier=thorough mem=light bound="models=2,rows=2" timeout=900 fns=linfa::composing::MultiClassModel::predict_inplace,linfa::composing::MultiClassModel::default_target,linfa::composing::MultiClassModel::from_iter
#[kani::proof]
#[kani::unwind(5)]
#[kani::stub(alloc::fmt::format, fmt_stub)]
fn c03_multiclass_m2_n2() {
    let (pa, pb) = (any_probs(), any_probs());
    let lab: [u8; 2] = kani::any();
    kani::assume(lab[0] != lab[1]);
    let r: [u8; 2] = kani::any();
    let x = Array2::from_shape_vec((2, 1), vec![r[0], r[1]]).unwrap();
    let mc: MultiClassModel<Array2<u8>, u8> = vec![(lab[0], PrN::<2> { p: pa }), (lab[1], PrN::<2> { p: pb })].into_iter().collect();
    let mut y = mc.default_target(&x);
    mc.predict_inplace(&x, &mut y);
    assert!(y.len() == 2);
    let mut i = 0;
    while i < 2 {
        let t = (r[i] & 1) as usize;
        let best = max2(pa[t], pb[t]);
        assert!((y[i] == lab[0] && pa[t] == best) || (y[i] == lab[1] && pb[t] == best));
        i += 1;
    }
    kani::cover!(y[0] == lab[1] && y[1] == lab[0]);
    kani::cover!(y[0] == lab[0] && y[1] == lab[1]);
}

// three members, a single row; a single member
// @unit class=bounded tier=thorough mem=light bound="models x rows=3x1;1x2" timeout=900 fns=linfa::composing::MultiClassModel::predict_inplace,linfa::composing::MultiClassModel::default_target,linfa::composing::MultiClassModel::new
#[kani::proof]
#[kani::unwind(5)]
#[kani::stub(alloc::fmt::format, fmt_stub)]
fn c03_multiclass_m3_n1_m1_n2() {
    let (pa, pb, pc) = (any_probs(), any_probs(), any_probs());
    let lab: [u8; 3] = kani::any();
    kani::assume(lab[0] != lab[1] && lab[0] != lab[2] && lab[1] != lab[2]);
    let r: [u8; 2] = kani::any();
    let x1 = Array2::from_shape_vec((1, 1), vec![r[0]]).unwrap();
    let mc: MultiClassModel<Array2<u8>, u8> = MultiClassModel::new(vec![
        (lab[0], Box::new(PrN::<1> { p: pa })), (lab[1], Box::new(PrN::<1> { p: pb })), (lab[2], Box::new(PrN::<1> { p: pc }))]);
    let y: Array1<u8> = mc.predict(&x1);
    assert!(y.len() == 1);
    let t = (r[0] & 1) as usize;
    let best = max2(max2(pa[t], pb[t]), pc[t]);
    assert!((y[0] == lab[0] && pa[t] == best) || (y[0] == lab[1] && pb[t] == best) || (y[0] == lab[2] && pc[t] == best));
    kani::cover!(y[0] == lab[2]);
    kani::cover!(y[0] == lab[1]);
    // a wrapper around one member answers that member's label for every row
    let x2 = Array2::from_shape_vec((2, 1), vec![r[0], r[1]]).unwrap();
    let one: MultiClassModel<Array2<u8>, u8> = MultiClassModel::new(vec![(lab[1], Box::new(PrN::<2> { p: pa }))]);
    let z: Array1<u8> = one.predict(&x2);
    assert!(z.len() == 2 && z[0] == lab[1] && z[1] == lab[1]);
}
