//! property: C03
//! attach: src/composing/platt_scaling.rs
//! module: vk_c03_platt
// @include common/prelude.rs
// @include common/ghost_f32.rs
use super::*;

// Statement: "a Platt-calibrated model returns a probability in [0,1] that is a monotone sigmoid
// of the inner decision value".  Rustdoc of `Platt`: g(x) = 1 / (1 + exp(A * f(x) + B)).
// With z = A*f(x)+B the documented function is non-increasing in z, equals 1/2 at z = 0, so
//   z <  0  =>  p >= 1/2,     z >= 0  =>  p <= 1/2,     z1 <= z2  =>  p(z1) >= p(z2).
// `exp` is the uninterpreted ghost function of common/ghost_f32.rs (range facts, functional and
// monotone within one run); nothing else about exp is assumed.  `platt_predict` converts z to f32
// before it calls exp, so `f32::exp` is the only transcendental reached for F = f32 and F = f64.
//
// Monotonicity is stated UP TO ROUNDING: p(z1) >= p(z2) * (1 - 2^-21).  IEEE evaluation of
// e/(1+e) in f32 may decrease by one ulp between two neighbouring values of e (measured at design
// time, DESIGN section 6 C03), so exact monotonicity of the *computed* sigmoid is a false alarm.
const SLACK: f32 = 1.0 - 4.76837158203125e-7; // 1 - 2^-21, exactly representable in f32

// The only loop reached by the platt_predict units is the lookup loop of the ghost exp table,
// whose trip count is bounded by the constant GHOST_CAP = 4 (never by a symbolic value or an
// array extent of the code under test): #[kani::unwind(6)] covers it completely, the units stay
// `complete` (all finite a, b, x).

// ---- range: for all finite a, b, x the result is a probability (and Pr::new does not panic) ----
// @unit class=complete tier=quick mem=light timeout=600 fns=linfa::composing::platt_scaling::platt_predict
#[kani::proof]
#[kani::unwind(6)]
#[kani::stub(f32::exp, ghost_exp32)]
#[kani::stub(alloc::fmt::format, fmt_stub)]
fn c03_platt_range_f32() {
    let (x, a, b): (f32, f32, f32) = (kani::any(), kani::any(), kani::any());
    kani::assume(x.is_finite() && a.is_finite() && b.is_finite());
    let z = a * x + b;                       // may be +-inf (overflow), never NaN for finite a, b, x
    let p = platt_predict(x, a, b);          // Pr::new panics outside [0,1] - a panic fails the unit
    assert!(*p >= 0.0 && *p <= 1.0);
    kani::cover!(z < 0.0 && *p < 1.0);
    kani::cover!(z > 0.0 && *p > 0.0);
    kani::cover!(z == 0.0);
    kani::cover!(z == f32::INFINITY);
    kani::cover!(z == f32::NEG_INFINITY);
}

// @unit class=complete tier=quick mem=light timeout=600 fns=linfa::composing::platt_scaling::platt_predict
#[kani::proof]
#[kani::unwind(6)]
#[kani::stub(f32::exp, ghost_exp32)]
#[kani::stub(alloc::fmt::format, fmt_stub)]
fn c03_platt_range_f64() {
    let (x, a, b): (f64, f64, f64) = (kani::any(), kani::any(), kani::any());
    kani::assume(x.is_finite() && a.is_finite() && b.is_finite());
    let z = a * x + b;
    let p = platt_predict(x, a, b);
    assert!(*p >= 0.0 && *p <= 1.0);
    kani::cover!(z < 0.0 && *p < 1.0);
    kani::cover!(z > 0.0 && *p > 0.0);
    kani::cover!(z == 0.0);
}

// the limits of the documented g = 1/(1+exp(z)) when A*x+B overflows to +-inf
// @unit class=complete tier=thorough mem=light timeout=1800 fns=linfa::composing::platt_scaling::platt_predict
#[kani::proof]
#[kani::unwind(6)]
#[kani::stub(f32::exp, ghost_exp32)]
#[kani::stub(alloc::fmt::format, fmt_stub)]
fn c03_platt_limits_f32() {
    let (x, a, b): (f32, f32, f32) = (kani::any(), kani::any(), kani::any());
    kani::assume(x.is_finite() && a.is_finite() && b.is_finite());
    let z = a * x + b;
    kani::assume(z.is_infinite());
    let p = platt_predict(x, a, b);
    if z > 0.0 { assert!(*p == 0.0); } else { assert!(*p == 1.0); }
    kani::cover!(z > 0.0);
    kani::cover!(z < 0.0);
}

// ---- the sigmoid is centred: negative decision side => p >= 1/2, non-negative => p <= 1/2 ----
// (one harness per sign so that each query contains a single float division)
// @unit class=complete tier=thorough mem=light timeout=2400 fns=linfa::composing::platt_scaling::platt_predict
#[kani::proof]
#[kani::unwind(6)]
#[kani::stub(f32::exp, ghost_exp32)]
#[kani::stub(alloc::fmt::format, fmt_stub)]
fn c03_platt_half_neg_f32() {
    let (x, a, b): (f32, f32, f32) = (kani::any(), kani::any(), kani::any());
    kani::assume(x.is_finite() && a.is_finite() && b.is_finite());
    let z = a * x + b;
    kani::assume(z < 0.0);
    let p = platt_predict(x, a, b);
    assert!(*p >= 0.5 && *p <= 1.0);
    kani::cover!(*p > 0.5 && *p < 1.0);
    kani::cover!(*p == 0.5);
}

// @unit class=complete tier=thorough mem=light timeout=2400 fns=linfa::composing::platt_scaling::platt_predict
#[kani::proof]
#[kani::unwind(6)]
#[kani::stub(f32::exp, ghost_exp32)]
#[kani::stub(alloc::fmt::format, fmt_stub)]
fn c03_platt_half_pos_f32() {
    let (x, a, b): (f32, f32, f32) = (kani::any(), kani::any(), kani::any());
    kani::assume(x.is_finite() && a.is_finite() && b.is_finite());
    let z = a * x + b;
    kani::assume(z >= 0.0);
    let p = platt_predict(x, a, b);
    assert!(*p <= 0.5 && *p >= 0.0);
    kani::cover!(*p < 0.5 && *p > 0.0);
    kani::cover!(*p == 0.5 && z > 0.0);
}

// The same two claims as a cheap BOUNDED unit for the quick tier (the complete units above take
// 11-14 min each): A = +1 or -1, B a symbolic integer in [-4,4] (z = +-x + B, x any finite f32),
// exp values on the 8-bit grid defined below.
// @unit class=bounded tier=quick mem=light bound="A=+-1,B=-4..4,exp on 8-bit grid" timeout=600 fns=linfa::composing::platt_scaling::platt_predict
#[kani::proof]
#[kani::unwind(6)]
#[kani::stub(f32::exp, grid_exp32)]
#[kani::stub(alloc::fmt::format, fmt_stub)]
fn c03_platt_half_grid() {
    let a: f32 = if kani::any() { 1.0 } else { -1.0 };
    let bi: i8 = kani::any();
    kani::assume(bi >= -4 && bi <= 4);
    let b = bi as f32;
    let x: f32 = kani::any();
    kani::assume(x.is_finite());
    let z = a * x + b;
    let p = platt_predict(x, a, b);
    assert!(*p >= 0.0 && *p <= 1.0);
    if z < 0.0 { assert!(*p >= 0.5); }
    if z >= 0.0 { assert!(*p <= 0.5); }
    kani::cover!(z < 0.0 && *p > 0.5 && *p < 1.0 && b > 0.0);
    kani::cover!(z > 0.0 && *p < 0.5 && *p > 0.0 && b < 0.0 && a < 0.0);
}

// ---- monotone -------------------------------------------------------------------------------
// z1 <= z2  =>  p(z1) >= p(z2) (up to rounding, factor 1 - 2^-21).
//  * across the sign boundary (z1 < 0 <= z2) this is a corollary of the two `half` units above
//    (p(z1) >= 1/2 >= p(z2), exact) and needs no unit of its own;
//  * equal decision values give equal probabilities: asserted in the bounded units below (the
//    full-domain form - equality of two float divisions whose inputs are equal only up to the sign
//    of a zero exp value - did not finish in 10 min; platt_predict is a pure scalar function);
//  * within one sign the claim needs the monotonicity of an IEEE division in its divisor
//    (1/(1+e)) resp. of e/(1+e) in e.  MEASURED: not decidable here over the full float domain -
//    CaDiCaL 25 min, kissat / z3 / cvc5 15 min each, no answer (bit-blasted 24-bit dividers); with
//    the exp values on a grid but a, b, x arbitrary: 876 s (z<0) / no answer in 20 min (z>=0).
//    It is therefore checked as a BOUNDED unit: A = +1 or -1 and B = 0 (so z = +-x is still an
//    arbitrary finite f32) and every value returned by the ghost exp restricted to 0 or a float
//    in [2^-8, 1] with an 8-bit significand (15-20 s per sign).  Neighbouring grid values differ by
//    a relative 2^-8 >> 1 ulp, so on the grid 1-ulp effects cannot mask a wrong direction, and the
//    exact claim p(z1) >= p(z2) is asserted next to the one with slack.
fn on_grid(r: f32) -> bool { r == 0.0 || (r >= 0.00390625 && r <= 1.0 && (r.to_bits() & 0x0000_ffff) == 0) }
fn grid_exp32(x: f32) -> f32 {
    let r = ghost_exp32(x);
    kani::assume(on_grid(r));
    r
}

// @unit class=bounded tier=quick mem=light bound="A=+-1,B=0,exp on 8-bit grid" timeout=600 fns=linfa::composing::platt_scaling::platt_predict
#[kani::proof]
#[kani::unwind(6)]
#[kani::stub(f32::exp, grid_exp32)]
#[kani::stub(alloc::fmt::format, fmt_stub)]
fn c03_platt_monotone_neg_grid() {
    let a: f32 = if kani::any() { 1.0 } else { -1.0 };
    let b: f32 = 0.0;
    let (x1, x2): (f32, f32) = (kani::any(), kani::any());
    kani::assume(x1.is_finite() && x2.is_finite());
    let z1 = a * x1 + b;
    let z2 = a * x2 + b;
    kani::assume(z1 <= z2 && z2 < 0.0);
    let p1 = platt_predict(x1, a, b);
    let p2 = platt_predict(x2, a, b);
    assert!(*p1 >= *p2 * SLACK);
    assert!(*p1 >= *p2);                 // exact on the grid
    if z1 == z2 { assert!(*p1 == *p2); }
    kani::cover!(*p1 > *p2 && *p2 > 0.5);
    kani::cover!(z1 < z2 && *p1 == *p2);
    kani::cover!(a < 0.0 && *p1 > *p2);
}

// @unit class=bounded tier=quick mem=light bound="A=+-1,B=0,exp on 8-bit grid" timeout=600 fns=linfa::composing::platt_scaling::platt_predict
#[kani::proof]
#[kani::unwind(6)]
#[kani::stub(f32::exp, grid_exp32)]
#[kani::stub(alloc::fmt::format, fmt_stub)]
fn c03_platt_monotone_pos_grid() {
    let a: f32 = if kani::any() { 1.0 } else { -1.0 };
    let b: f32 = 0.0;
    let (x1, x2): (f32, f32) = (kani::any(), kani::any());
    kani::assume(x1.is_finite() && x2.is_finite());
    let z1 = a * x1 + b;
    let z2 = a * x2 + b;
    kani::assume(0.0 <= z1 && z1 <= z2);
    let p1 = platt_predict(x1, a, b);
    let p2 = platt_predict(x2, a, b);
    assert!(*p1 >= *p2 * SLACK);
    assert!(*p1 >= *p2);                 // exact on the grid
    if z1 == z2 { assert!(*p1 == *p2); }
    kani::cover!(*p1 > *p2 && *p1 < 0.5 && *p2 > 0.0);
    kani::cover!(z1 < z2 && *p1 == *p2);
    kani::cover!(a < 0.0 && *p1 > *p2);
}

// ---- Platt::predict_inplace over an arbitrary per-row inner model -----------------------------
// Modular in `platt_predict`: the scalar sigmoid has its own complete units above, so here it is
// replaced by an uninterpreted function (arbitrary result in [0,1], *functional*: same (x, a, b) bit
// patterns => same result).  What is left to check is the wrapper's own job: one inner prediction
// on the caller's records, one output per row, output i = platt_predict(inner(row i), A, B) with
// the model's own A and B in that order.  (Measured: with the real sigmoid in place the equality
// of two float divisions did not finish in 25 min.)
static mut GP_X: [u64; 4] = [0; 4];
static mut GP_A: [u64; 4] = [0; 4];
static mut GP_B: [u64; 4] = [0; 4];
static mut GP_R: [f32; 4] = [0.0; 4];
static mut GP_N: usize = 0;
fn ghost_platt<F: Float>(x: F, a: F, b: F) -> Pr {
    let (x, a, b) = (x.to_f64().unwrap().to_bits(), a.to_f64().unwrap().to_bits(), b.to_f64().unwrap().to_bits());
    let r: f32 = kani::any();
    kani::assume(r >= 0.0 && r <= 1.0);
    unsafe {
        let mut i = 0;
        while i < GP_N {
            if x == GP_X[i] && a == GP_A[i] && b == GP_B[i] { kani::assume(r == GP_R[i]); }
            i += 1;
        }
        if GP_N < 4 { GP_X[GP_N] = x; GP_A[GP_N] = a; GP_B[GP_N] = b; GP_R[GP_N] = r; GP_N += 1; }
    }
    Pr::new_unchecked(r)
}

// Inner witness: decision value = symbolic finite table entry selected by the sign of the row's
// only feature (an arbitrary per-row function with two classes of rows).
struct InnerModel { dv: [f32; 2] }
impl InnerModel {
    fn f(&self, v: f32) -> f32 { if v > 0.0 { self.dv[1] } else { self.dv[0] } }
}
static mut INNER_CALLS: u32 = 0;
impl PredictInplace<Array2<f32>, Array1<f32>> for InnerModel {
    fn predict_inplace<'a>(&'a self, x: &'a Array2<f32>, y: &mut Array1<f32>) {
        unsafe { INNER_CALLS += 1; }
        assert!(x.nrows() == y.len(), "The number of data points must match the number of output targets.");
        let mut i = 0;
        while i < x.nrows() { y[i] = self.f(x[(i, 0)]); i += 1; }
    }
    fn default_target(&self, x: &Array2<f32>) -> Array1<f32> { Array1::zeros(x.nrows()) }
}
fn platt_rows(n: usize, via_blanket: bool) -> Array1<Pr> {
    unsafe { INNER_CALLS = 0; GP_N = 0; }
    let (a, b): (f32, f32) = (kani::any(), kani::any());
    let dv: [f32; 2] = kani::any();
    let r: [f32; 2] = kani::any();
    kani::assume(a.is_finite() && b.is_finite() && dv[0].is_finite() && dv[1].is_finite());
    kani::assume(!r[0].is_nan() && !r[1].is_nan());
    let mut v = Vec::new();
    let mut i = 0;
    while i < n { v.push(r[i]); i += 1; }
    let x = Array2::from_shape_vec((n, 1), v).unwrap();
    let m = Platt { a, b, obj: InnerModel { dv } };
    let out: Array1<Pr> = if via_blanket {
        m.predict(&x)
    } else {
        let mut y = m.default_target(&x);
        m.predict_inplace(&x, &mut y);
        y
    };
    // exactly one output per input row, each the calibrated value of *that* row's decision value
    assert!(out.len() == n);
    let mut i = 0;
    while i < n {
        let want = platt_predict(m.obj.f(r[i]), a, b);
        assert!(*out[i] == *want);
        i += 1;
    }
    unsafe { assert!(INNER_CALLS == 1); }
    // the records are untouched
    let mut i = 0;
    while i < n { assert!(x[(i, 0)] == r[i]); i += 1; }
    out
}

// @unit class=bounded tier=quick mem=light bound="rows=2" timeout=900 fns=linfa::composing::platt_scaling::Platt::predict_inplace,linfa::composing::platt_scaling::Platt::default_target
#[kani::proof]
#[kani::unwind(6)]
#[kani::stub(platt_predict, ghost_platt)]
#[kani::stub(alloc::fmt::format, fmt_stub)]
fn c03_platt_inplace_n2() {
    let out = platt_rows(2, true);
    kani::cover!(*out[0] > 0.5 && *out[1] < 0.5);
    kani::cover!(*out[0] == *out[1]);
}

// @unit class=bounded tier=thorough mem=light bound="rows=0..1" timeout=900 fns=linfa::composing::platt_scaling::Platt::predict_inplace,linfa::composing::platt_scaling::Platt::default_target
#[kani::proof]
#[kani::unwind(6)]
#[kani::stub(platt_predict, ghost_platt)]
#[kani::stub(alloc::fmt::format, fmt_stub)]
fn c03_platt_inplace_n01() {
    let e = platt_rows(0, false);
    assert!(e.len() == 0);
    let out = platt_rows(1, false);
    kani::cover!(*out[0] > 0.5);
    kani::cover!(*out[0] < 0.5);
}
