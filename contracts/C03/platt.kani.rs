//! property: C03
//! attach: src/composing/platt_scaling.rs
//! module: vk_c03_platt
// @include common/prelude.rs
// @include common/ghost_f32.rs
use super::*;

// Statement: "a Platt-calibrated model returns a probability in [0,1] that is a monotone sigmoid
// of the inner decision value".  Rustdoc of `Platt`: g(x) = 1 / (1 + exp(A * f(x) + B)).
// With z = A*f(x)+B the documented function is non-increasing in z, equals 1/2 at z = 0, so
//   z <  0  =>  p >= 1/2,     z >= 0  =>  p <= 1/2,     z1 <= z2  =>  p(z1) >= p(z2).
// `exp` is the uninterpreted ghost function of common/ghost_f32.rs (range facts, functional and
// monotone within one run); nothing else about exp is assumed.  `platt_predict` converts z to f32
// before it calls exp, so `f32::exp` is the only transcendental reached for F = f32 and F = f64.
//
// Monotonicity is stated UP TO ROUNDING: p(z1) >= p(z2) * (1 - 2^-21).  IEEE evaluation of
// e/(1+e) in f32 may decrease by one ulp between two neighbouring values of e (measured at design
// time, DESIGN section 6 C03), so exact monotonicity of the *computed* sigmoid is a false alarm.
const SLACK: f32 = 1.0 - 4.76837158203125e-7; // 1 - 2^-21, exactly representable in f32

// The only loop reached by the platt_predict units is the lookup loop of the ghost exp table,
// whose trip count is bounded by the constant GHOST_CAP = 4 (never by a symbolic value or an
// array extent of the code under test): #[kani::unwind(6)] covers it completely, the units stay
// `complete` (all finite a, b, x).

// ---- range: for all finite a, b, x the result is a probability (and Pr::new does not panic) ----
// @unit class=complete tier=quick mem=light timeout=600 fns=linfa::composing::platt_scaling::platt_predict
#[kani::proof]
#[kani::unwind(6)]
#[kani::stub(f32::exp, ghost_exp32)]
#[kani::stub(alloc::fmt::format, fmt_stub)]
fn c03_platt_range_f32() {
    let (x, a, b): (f32, f32, f32) = (kani::any(), kani::any(), kani::any());
    kani::assume(x.is_finite() && a.is_finite() && b.is_finite());
    let z = a * x + b;                       // may be +-inf (overflow), never NaN for finite a, b, x
    let p = platt_predict(x, a, b);          // Pr::new panics outside [0,1] - a panic fails the unit
    assert!(*p >= 0.0 && *p <= 1.0);
    kani::cover!(z < 0.0 && *p < 1.0);
    kani::cover!(z > 0.0 && *p > 0.0);
    kani::cover!(z == 0.0 && *p == 0.5);
    kani::cover!(z == f32::INFINITY && *p == 0.0);
    kani::cover!(z == f32::NEG_INFINITY && *p == 1.0);
}

// @unit class=complete tier=quick mem=light timeout=600 fns=linfa::composing::platt_scaling::platt_predict
#[kani::proof]
#[kani::unwind(6)]
#[kani::stub(f32::exp, ghost_exp32)]
#[kani::stub(alloc::fmt::format, fmt_stub)]
fn c03_platt_range_f64() {
    let (x, a, b): (f64, f64, f64) = (kani::any(), kani::any(), kani::any());
    kani::assume(x.is_finite() && a.is_finite() && b.is_finite());
    let z = a * x + b;
    let p = platt_predict(x, a, b);
    assert!(*p >= 0.0 && *p <= 1.0);
    kani::cover!(z < 0.0 && *p < 1.0);
    kani::cover!(z > 0.0 && *p > 0.0);
    kani::cover!(z == 0.0 && *p == 0.5);
}

// ---- the sigmoid is centred: negative decision side => p >= 1/2, non-negative => p <= 1/2 ----
// (one harness per sign so that each query contains a single float division)
// @unit class=complete tier=thorough mem=light timeout=1200 fns=linfa::composing::platt_scaling::platt_predict
#[kani::proof]
#[kani::unwind(6)]
#[kani::stub(f32::exp, ghost_exp32)]
#[kani::stub(alloc::fmt::format, fmt_stub)]
fn c03_platt_half_neg_f32() {
    let (x, a, b): (f32, f32, f32) = (kani::any(), kani::any(), kani::any());
    kani::assume(x.is_finite() && a.is_finite() && b.is_finite());
    let z = a * x + b;
    kani::assume(z < 0.0);
    let p = platt_predict(x, a, b);
    assert!(*p >= 0.5 && *p <= 1.0);
    kani::cover!(*p > 0.5 && *p < 1.0);
    kani::cover!(*p == 0.5);
}

// @unit class=complete tier=thorough mem=light timeout=1200 fns=linfa::composing::platt_scaling::platt_predict
#[kani::proof]
#[kani::unwind(6)]
#[kani::stub(f32::exp, ghost_exp32)]
#[kani::stub(alloc::fmt::format, fmt_stub)]
fn c03_platt_half_pos_f32() {
    let (x, a, b): (f32, f32, f32) = (kani::any(), kani::any(), kani::any());
    kani::assume(x.is_finite() && a.is_finite() && b.is_finite());
    let z = a * x + b;
    kani::assume(z >= 0.0);
    let p = platt_predict(x, a, b);
    assert!(*p <= 0.5 && *p >= 0.0);
    kani::cover!(*p < 0.5 && *p > 0.0);
    kani::cover!(*p == 0.5 && z > 0.0);
}

// ---- monotone up to rounding -----------------------------------------------------------------
// z1 <= z2  =>  p(z1) >= p(z2) * (1 - 2^-21); equal decision values give equal probabilities.
// Split by the signs of z1, z2 (the three cases are exhaustive for z1 <= z2).
// @unit class=complete tier=thorough mem=light timeout=1500 fns=linfa::composing::platt_scaling::platt_predict
#[kani::proof]
#[kani::unwind(6)]
#[kani::stub(f32::exp, ghost_exp32)]
#[kani::stub(alloc::fmt::format, fmt_stub)]
fn c03_platt_monotone_negneg_f32() {
    let (a, b, x1, x2): (f32, f32, f32, f32) = (kani::any(), kani::any(), kani::any(), kani::any());
    kani::assume(a.is_finite() && b.is_finite() && x1.is_finite() && x2.is_finite());
    let z1 = a * x1 + b;
    let z2 = a * x2 + b;
    kani::assume(z1 <= z2 && z2 < 0.0);
    let p1 = platt_predict(x1, a, b);
    let p2 = platt_predict(x2, a, b);
    assert!(*p1 >= *p2 * SLACK);
    if z1 == z2 { assert!(*p1 == *p2); }
    kani::cover!(*p1 > *p2);
    kani::cover!(z1 < z2 && *p1 == *p2);
}

// @unit class=complete tier=thorough mem=light timeout=1500 fns=linfa::composing::platt_scaling::platt_predict
#[kani::proof]
#[kani::unwind(6)]
#[kani::stub(f32::exp, ghost_exp32)]
#[kani::stub(alloc::fmt::format, fmt_stub)]
fn c03_platt_monotone_pospos_f32() {
    let (a, b, x1, x2): (f32, f32, f32, f32) = (kani::any(), kani::any(), kani::any(), kani::any());
    kani::assume(a.is_finite() && b.is_finite() && x1.is_finite() && x2.is_finite());
    let z1 = a * x1 + b;
    let z2 = a * x2 + b;
    kani::assume(0.0 <= z1 && z1 <= z2);
    let p1 = platt_predict(x1, a, b);
    let p2 = platt_predict(x2, a, b);
    assert!(*p1 >= *p2 * SLACK);
    if z1 == z2 { assert!(*p1 == *p2); }
    kani::cover!(*p1 > *p2);
    kani::cover!(z1 < z2 && *p1 == *p2);
}

// @unit class=complete tier=thorough mem=light timeout=1500 fns=linfa::composing::platt_scaling::platt_predict
#[kani::proof]
#[kani::unwind(6)]
#[kani::stub(f32::exp, ghost_exp32)]
#[kani::stub(alloc::fmt::format, fmt_stub)]
fn c03_platt_monotone_negpos_f32() {
    let (a, b, x1, x2): (f32, f32, f32, f32) = (kani::any(), kani::any(), kani::any(), kani::any());
    kani::assume(a.is_finite() && b.is_finite() && x1.is_finite() && x2.is_finite());
    let z1 = a * x1 + b;
    let z2 = a * x2 + b;
    kani::assume(z1 < 0.0 && 0.0 <= z2);
    let p1 = platt_predict(x1, a, b);
    let p2 = platt_predict(x2, a, b);
    assert!(*p1 >= *p2);            // exact here: p1 >= 1/2 >= p2
    kani::cover!(*p1 > *p2);
    kani::cover!(*p1 == *p2);
}

// ---- Platt::predict_inplace over an arbitrary per-row inner model -----------------------------
// Inner witness: decision value = symbolic finite table entry selected by the sign of the row's
// only feature (an arbitrary per-row function with two classes of rows).
struct InnerModel { dv: [f32; 2] }
impl InnerModel {
    fn f(&self, v: f32) -> f32 { if v > 0.0 { self.dv[1] } else { self.dv[0] } }
}
static mut INNER_CALLS: u32 = 0;
impl PredictInplace<Array2<f32>, Array1<f32>> for InnerModel {
    fn predict_inplace<'a>(&'a self, x: &'a Array2<f32>, y: &mut Array1<f32>) {
        unsafe { INNER_CALLS += 1; }
        assert!(x.nrows() == y.len(), "The number of data points must match the number of output targets.");
        let mut i = 0;
        while i < x.nrows() { y[i] = self.f(x[(i, 0)]); i += 1; }
    }
    fn default_target(&self, x: &Array2<f32>) -> Array1<f32> { Array1::zeros(x.nrows()) }
}
fn platt_rows(n: usize, via_blanket: bool) -> Array1<Pr> {
    unsafe { INNER_CALLS = 0; }
    let (a, b): (f32, f32) = (kani::any(), kani::any());
    let dv: [f32; 2] = kani::any();
    let r: [f32; 2] = kani::any();
    kani::assume(a.is_finite() && b.is_finite() && dv[0].is_finite() && dv[1].is_finite());
    kani::assume(!r[0].is_nan() && !r[1].is_nan());
    let mut v = Vec::new();
    let mut i = 0;
    while i < n { v.push(r[i]); i += 1; }
    let x = Array2::from_shape_vec((n, 1), v).unwrap();
    let m = Platt { a, b, obj: InnerModel { dv } };
    let out: Array1<Pr> = if via_blanket {
        m.predict(&x)
    } else {
        let mut y = m.default_target(&x);
        m.predict_inplace(&x, &mut y);
        y
    };
    // exactly one output per input row, each the calibrated value of *that* row's decision value
    assert!(out.len() == n);
    let mut i = 0;
    while i < n {
        let want = platt_predict(m.obj.f(r[i]), a, b);
        assert!(*out[i] == *want);
        assert!(*out[i] >= 0.0 && *out[i] <= 1.0);
        i += 1;
    }
    unsafe { assert!(INNER_CALLS == 1); }
    if n == 2 {
        kani::cover!(*out[0] != *out[1]);
        kani::cover!(r[0] > 0.0 && r[1] < 0.0 && *out[0] < *out[1]);
    }
    out
}

// @unit class=bounded tier=quick mem=light bound="rows=2" timeout=900 fns=linfa::composing::platt_scaling::Platt::predict_inplace,linfa::composing::platt_scaling::Platt::default_target,linfa::composing::platt_scaling::platt_predict
#[kani::proof]
#[kani::unwind(6)]
#[kani::stub(f32::exp, ghost_exp32)]
#[kani::stub(alloc::fmt::format, fmt_stub)]
fn c03_platt_inplace_n2() {
    let out = platt_rows(2, true);
    kani::cover!(*out[0] > 0.5 && *out[1] < 0.5);
}

// @unit class=bounded tier=thorough mem=light bound="rows=0..1" timeout=900 fns=linfa::composing::platt_scaling::Platt::predict_inplace,linfa::composing::platt_scaling::Platt::default_target,linfa::composing::platt_scaling::platt_predict
#[kani::proof]
#[kani::unwind(6)]
#[kani::stub(f32::exp, ghost_exp32)]
#[kani::stub(alloc::fmt::format, fmt_stub)]
fn c03_platt_inplace_n01() {
    let e = platt_rows(0, false);
    assert!(e.len() == 0);
    let out = platt_rows(1, false);
    kani::cover!(*out[0] > 0.5);
    kani::cover!(*out[0] < 0.5);
}
