//! property: C03
//! unit: V-C03-kmeans-assign
//! tier: quick
//! fns: linfa_clustering::k_means::algorithm::update_cluster_memberships, linfa_clustering::k_means::algorithm::update_min_dists, linfa_clustering::k_means::algorithm::update_memberships_and_dists (the per-observation closures behind batch k-means predict / transform and the Lloyd assignment step)
//@ extract MB from algorithms/linfa-clustering/src/k_means/algorithm.rs anchor ".par_for_each(|observation, cluster_membership| {" body
//@ extract MD from algorithms/linfa-clustering/src/k_means/algorithm.rs anchor ".par_for_each(|observation, dist| {" body
//@ extract BOTH from algorithms/linfa-clustering/src/k_means/algorithm.rs anchor ".par_for_each(|observation, cluster_membership, dist| {" body
//@ expect-fail vacuity_guard_assign
use vstd::prelude::*;
verus! {
// reduced distances as mathematical numbers (they are only compared): d[c] = rdistance(centroid c, observation), ASSUMED not NaN
pub struct RowTok { pub c: Ghost<int> }
impl RowTok { pub fn view(&self) -> (r: RowTok) ensures r.c@ == self.c@ { RowTok { c: Ghost(self.c@) } } }
pub struct ObsTok;
impl ObsTok { pub fn view(&self) -> (r: ObsTok) { ObsTok } }
pub struct CentTok { pub k: Ghost<int> }
impl CentTok {
    #[verifier::external_body] pub fn nrows(&self) -> (r: usize) ensures r == self.k@ { unimplemented!() }
    #[verifier::external_body] pub fn row(&self, i: usize) -> (r: RowTok) requires i < self.k@, ensures r.c@ == i { unimplemented!() }
}
pub struct DistFn { pub d: Ghost<Seq<i128>> }
impl DistFn {
    #[verifier::external_body] pub fn rdistance(&self, a: RowTok, b: ObsTok) -> (r: i128) requires 0 <= a.c@ < self.d@.len(), ensures r == self.d@[a.c@] { unimplemented!() }
}
pub uninterp spec fn chosen(d: Seq<i128>) -> int;       // WHICH minimal index closest_centroid returns: a function of the distances alone
// closest_centroid: arg-min contract proved from its extracted body by V-C09-closest-centroid; it reads nothing but its arguments (no `&mut`, no state)
#[verifier::external_body]
pub fn closest_centroid(dist_fn: &DistFn, centroids: &CentTok, observation: &ObsTok) -> (r: (usize, i128))
    requires centroids.k@ >= 1, dist_fn.d@.len() == centroids.k@,
    ensures r.0 == chosen(dist_fn.d@), r.0 < centroids.k@, r.1 == dist_fn.d@[r.0 as int], forall|c: int| 0 <= c < centroids.k@ ==> r.1 <= #[trigger] dist_fn.d@[c],
{ unimplemented!() }
// C03: "the prediction for a sample depends only on that sample and the model ... the calling forms (.., in-place) return the same values": whatever the
// output slot held before, it ends up holding the index closest_centroid picks for THIS observation (C09: a centroid at minimal distance), and the
// distance slot the minimal reduced distance
pub fn membership_slot(dist_fn: &DistFn, centroids: &CentTok, observation: ObsTok, cluster_membership: &mut usize)
    requires centroids.k@ >= 1, dist_fn.d@.len() == centroids.k@,
    ensures *final(cluster_membership) == chosen(dist_fn.d@), *final(cluster_membership) < centroids.k@,
        forall|c: int| 0 <= c < centroids.k@ ==> dist_fn.d@[*final(cluster_membership) as int] <= #[trigger] dist_fn.d@[c],
{
/*@MB*/
}
pub fn distance_slot(dist_fn: &DistFn, centroids: &CentTok, observation: ObsTok, dist: &mut i128)
    requires centroids.k@ >= 1, dist_fn.d@.len() == centroids.k@,
    ensures forall|c: int| 0 <= c < centroids.k@ ==> *final(dist) <= #[trigger] dist_fn.d@[c], *final(dist) == dist_fn.d@[chosen(dist_fn.d@)],
{
/*@MD*/
}
pub fn both_slots(dist_fn: &DistFn, centroids: &CentTok, observation: ObsTok, cluster_membership: &mut usize, dist: &mut i128)
    requires centroids.k@ >= 1, dist_fn.d@.len() == centroids.k@,
    ensures *final(cluster_membership) == chosen(dist_fn.d@), *final(cluster_membership) < centroids.k@, *final(dist) == dist_fn.d@[*final(cluster_membership) as int],
        forall|c: int| 0 <= c < centroids.k@ ==> *final(dist) <= #[trigger] dist_fn.d@[c],
{
/*@BOTH*/
}
pub fn vacuity_guard_assign(dist_fn: &DistFn, centroids: &CentTok, observation: ObsTok, cluster_membership: &mut usize)
    requires centroids.k@ >= 1, dist_fn.d@.len() == centroids.k@,
    ensures false,
{
}
} // verus!
fn main() {}
