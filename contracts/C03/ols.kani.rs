//! property: C03
//! attach: algorithms/linfa-linear/src/ols.rs
//! module: vk_c03_ols
// @include common/prelude.rs
use super::*;
use linfa::traits::Predict;
use ndarray::ShapeBuilder;

// Per-row independence of the OLS predictor (`x.dot(params) + intercept`, a matrix-vector
// product over the whole batch), stated as the metamorphic relation of the property text: the
// batch result equals, row by row and bit for bit, the result of predicting each row alone, for
// the permuted batch and for a non-contiguous view of the same rows.  Nothing of the formula is
// restated.  Fitted model: two symbolic coefficients and a symbolic intercept.
// Values: symbolic integers in [-8,8] stored in f32 (every intermediate exact; measured: with
// arbitrary finite f32 values the unit did not finish in 15 min).
fn same(a: f32, b: f32) -> bool { a == b || (a.is_nan() && b.is_nan()) }
fn small() -> f32 {
    let i: i8 = kani::any();
    kani::assume(i >= -8 && i <= 8);
    i as f32
}

// @unit class=bounded tier=thorough mem=light bound="rows=2,features=2,small ints" timeout=900 fns=linfa_linear::ols::FittedLinearRegression::predict_inplace,linfa_linear::ols::FittedLinearRegression::default_target
#[kani::proof]
#[kani::unwind(6)]
#[kani::stub(alloc::fmt::format, fmt_stub)]
fn c03_ols_rowwise_n2() {
    let w: [f32; 2] = [small(), small()];
    let c: f32 = small();
    let q: [[f32; 2]; 2] = [[small(), small()], [small(), small()]];
    let m = FittedLinearRegression { intercept: c, params: Array1::from(vec![w[0], w[1]]) };
    // each row alone
    let a: Array1<f32> = m.predict(&Array2::from_shape_vec((1, 2), vec![q[0][0], q[0][1]]).unwrap());
    let b: Array1<f32> = m.predict(&Array2::from_shape_vec((1, 2), vec![q[1][0], q[1][1]]).unwrap());
    assert!(a.len() == 1 && b.len() == 1);
    // batch and permuted batch
    let x = Array2::from_shape_vec((2, 2), vec![q[0][0], q[0][1], q[1][0], q[1][1]]).unwrap();
    let both: Array1<f32> = m.predict(&x);
    let rev: Array1<f32> = m.predict(&Array2::from_shape_vec((2, 2), vec![q[1][0], q[1][1], q[0][0], q[0][1]]).unwrap());
    assert!(both.len() == 2 && rev.len() == 2);
    assert!(same(both[0], a[0]) && same(both[1], b[0]));
    assert!(same(rev[0], b[0]) && same(rev[1], a[0]));
    // column-major (Fortran layout) copy of the same batch
    let f = Array2::from_shape_vec((2, 2).f(), vec![q[0][0], q[1][0], q[0][1], q[1][1]]).unwrap();
    let colmajor: Array1<f32> = m.predict(&f);
    assert!(colmajor.len() == 2 && same(colmajor[0], a[0]) && same(colmajor[1], b[0]));
    // empty batch
    let e: Array1<f32> = m.predict(&Array2::from_shape_vec((0, 2), vec![]).unwrap());
    assert!(e.len() == 0);
    kani::cover!(both[0] != both[1]);
    kani::cover!(both[0] == both[1] && q[0][0] != q[1][0]);
}
