#!/bin/bash
# usage: tools_mut.sh <ID> <file> <sed-expr> [vx args]  -- apply a sed to /repo, run the check, restore
ID=$1; F=$2; E=$3; shift 3
cd /repo && sed -i "$E" "$F" && git diff --stat | tail -1
if git diff --quiet; then echo "MUTATION DID NOT APPLY"; exit 3; fi
cd /verif && VERIF_EVIDENCE_DIR=/verif/.cache/evidence-mut ./vx check $ID "$@" | grep -v "^UNIT.*discharged"; echo "exit=${PIPESTATUS[0]}"
cd /repo && git checkout -- . 
