"""Staging: make a scratch copy of /repo's *current working tree* on which Kani can run.

The copy differs from /repo only by the mechanical edits S1..S3 of DESIGN.md section 3.1:
  S1  manifests: drop [dev-dependencies], [[bench]], the pprof target table, the pprof
      entry of the `benchmarks` feature            (no library source line is touched)
  S2  one `#[cfg(kani)] mod <name>;` line appended to the file that defines the items
      under contract (+ `#[cfg(kani)] extern crate alloc;` once per crate root), and the
      harness module copied next to it
  S3  contract attributes inserted immediately above a uniquely matched `fn` signature
Every edit is recorded and returned so that the evidence file can list it; a diff of
every *.rs file against /repo is computed and any removed line aborts the run.
"""
import os, re, shutil, subprocess, difflib

REPO = os.environ.get("VERIF_REPO", "/repo")
VERIF = os.path.dirname(os.path.dirname(os.path.abspath(__file__)))


class LostAnchor(Exception):
    pass


def _strip_manifest(text):
    """Remove dev-dependency / bench tables and the pprof bits. Returns (new_text, dropped_table_names)."""
    out, dropped = [], []
    skip = False
    for line in text.splitlines(keepends=True):
        m = re.match(r"\s*\[+([^\]]+)\]+", line)
        if m:
            name = m.group(1).strip()
            skip = (
                name == "dev-dependencies"
                or name.startswith("dev-dependencies.")
                or name == "bench"
                or (name.startswith("target.") and ("dev-dependencies" in name or "windows" in name))
            )
            if skip:
                dropped.append(name)
        if skip:
            continue
        if re.match(r'\s*benchmarks\s*=', line) and "pprof" in line:
            line = re.sub(r',?\s*"pprof"', "", line)
            dropped.append("benchmarks:pprof")
        out.append(line)
    return "".join(out), dropped


def rsync_repo(dest):
    os.makedirs(dest, exist_ok=True)
    subprocess.run(
        ["rsync", "-a", "--delete", "--exclude", "/target", "--exclude", ".git", REPO + "/", dest + "/"],
        check=True,
    )


def stage(dest, modules, attrs=(), playback=False):
    """modules: list of dict(attach=<repo-relative .rs file>, module=<mod name>, text=<harness source>)
    attrs: list of dict(file=<repo-relative>, anchor=<signature prefix>, lines=[attribute lines])
    Returns a list of human-readable staging edits."""
    edits = []
    rsync_repo(dest)
    # ---- S1
    for root, dirs, files in os.walk(dest):
        dirs[:] = [d for d in dirs if d not in ("target", ".git")]
        if "Cargo.toml" in files:
            p = os.path.join(root, "Cargo.toml")
            t = open(p).read()
            nt, dropped = _strip_manifest(t)
            if dropped:
                open(p, "w").write(nt)
                edits.append("S1 %s: dropped %s" % (os.path.relpath(p, dest), ", ".join(sorted(set(dropped)))))
    lock = os.path.join(REPO, "Cargo.lock")
    if not os.path.exists(lock):          # scratch worktrees do not carry the (untracked) lock file
        lock = "/repo/Cargo.lock"
    shutil.copy(lock, os.path.join(dest, "Cargo.lock"))
    os.makedirs(os.path.join(dest, ".cargo"), exist_ok=True)
    with open(os.path.join(dest, ".cargo", "config.toml"), "w") as f:
        f.write("[net]\noffline = true\n")
    if playback:
        for root, dirs, files in os.walk(dest):
            for d in list(dirs):
                if d in ("examples", "benches", "tests") and os.path.exists(os.path.join(root, "Cargo.toml")):
                    shutil.rmtree(os.path.join(root, d))
                    dirs.remove(d)
                    edits.append("P  removed dir %s (playback copy only)" % os.path.relpath(os.path.join(root, d), dest))
    # ---- S3 (before S2 so anchors are searched in pristine text)
    for a in attrs:
        p = os.path.join(dest, a["file"])
        if not os.path.exists(p):
            raise LostAnchor("file %s not found" % a["file"])
        src = open(p).read()
        lines = src.splitlines(keepends=True)
        hits = [i for i, l in enumerate(lines) if a["anchor"] in l]
        if len(hits) != 1:
            raise LostAnchor("anchor %r matches %d times in %s" % (a["anchor"], len(hits), a["file"]))
        i = hits[0]
        # climb over existing attributes / doc comments directly above the fn
        indent = re.match(r"\s*", lines[i]).group(0)
        ins = "".join(indent + l.rstrip("\n") + "\n" for l in a["lines"])
        lines.insert(i, ins)
        open(p, "w").write("".join(lines))
        edits.append("S3 %s: %d contract attribute line(s) above `%s`" % (a["file"], len(a["lines"]), a["anchor"]))
    # ---- S2
    roots_done = set()
    for m in modules:
        p = os.path.join(dest, m["attach"])
        if not os.path.exists(p):
            raise LostAnchor("attach file %s not found" % m["attach"])
        base = os.path.basename(p)
        d = os.path.dirname(p)
        if base in ("lib.rs", "mod.rs", "main.rs"):
            mdir = d
        else:
            mdir = os.path.join(d, base[:-3])
        os.makedirs(mdir, exist_ok=True)
        with open(os.path.join(mdir, m["module"] + ".rs"), "w") as f:
            f.write(m["text"])
        with open(p, "a") as f:
            f.write("\n#[cfg(kani)]\nmod %s;\n" % m["module"])
        edits.append("S2 %s: appended `#[cfg(kani)] mod %s;` (+ harness file %s)" % (
            m["attach"], m["module"], os.path.relpath(os.path.join(mdir, m["module"] + ".rs"), dest)))
        # crate root
        cr = _crate_root(dest, m["attach"])
        if cr not in roots_done:
            roots_done.add(cr)
            with open(os.path.join(dest, cr), "a") as f:
                f.write("\n#[cfg(kani)]\nextern crate alloc;\n")
            edits.append("S2 %s: appended `#[cfg(kani)] extern crate alloc;`" % cr)
    if playback:
        # crate-own test modules need the stripped dev-dependencies: gate them off under cfg(kani)
        for cr in roots_done:
            srcdir = os.path.dirname(os.path.join(dest, cr))
            for root, dirs, files in os.walk(srcdir):
                for fn in files:
                    if fn.endswith(".rs"):
                        p = os.path.join(root, fn)
                        t = open(p).read()
                        nt = t.replace("#[cfg(test)]", "#[cfg(all(test, not(kani)))]")
                        if nt != t:
                            open(p, "w").write(nt)
                            edits.append("P  %s: #[cfg(test)] -> #[cfg(all(test, not(kani)))] (playback copy only)" % os.path.relpath(p, dest))
    else:
        _check_add_only(dest, [m["attach"] for m in modules] + [a["file"] for a in attrs] + list(roots_done))
    return edits


def _crate_root(dest, relfile):
    d = os.path.dirname(os.path.join(dest, relfile))
    while True:
        if os.path.exists(os.path.join(d, "Cargo.toml")):
            return os.path.relpath(os.path.join(d, "src", "lib.rs"), dest)
        nd = os.path.dirname(d)
        if nd == d:
            raise LostAnchor("no Cargo.toml above %s" % relfile)
        d = nd


def _check_add_only(dest, files):
    for rel in set(files):
        a = open(os.path.join(REPO, rel)).read().splitlines()
        b = open(os.path.join(dest, rel)).read().splitlines()
        for l in difflib.unified_diff(a, b, lineterm="", n=0):
            if l.startswith("-") and not l.startswith("---"):
                raise LostAnchor("staging removed a source line in %s: %s" % (rel, l))


def crate_dir_of(relfile):
    d = os.path.dirname(os.path.join(REPO, relfile))
    while not os.path.exists(os.path.join(d, "Cargo.toml")):
        d = os.path.dirname(d)
    return os.path.relpath(d, REPO)


def crate_name_of(relfile):
    d = os.path.join(REPO, crate_dir_of(relfile))
    t = open(os.path.join(d, "Cargo.toml")).read()
    return re.search(r'^name\s*=\s*"([^"]+)"', t, re.M).group(1)
