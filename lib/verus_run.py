"""Verus units: mechanical extraction of real function text from /repo + contract template.

A template `contracts/<ID>/<name>.verus.rs` is a complete Verus file in which the *code
under verification is absent*: it is pulled from /repo's working tree on every run by the
directives below (DESIGN.md 3.2).  Nothing hand-copied from /repo lives in /verif.

Directives (comment lines starting with `//@`, arguments shell-quoted):
  //@ extract NAME from FILE anchor "LIT" body            text between the braces that follow the
                                                          first `{` after the (unique) anchor line
  //@ extract NAME from FILE anchor "LIT" block            the anchor line through the brace matching its first `{`
  //@ extract NAME from FILE anchor "LIT" until "LIT2"    whole lines from the anchor line up to,
                                                          excluding, the first later line containing LIT2
  //@ extract NAME from FILE anchor "LIT" lines N         N whole lines starting at the anchor line
  (any extract form may end with  after "LIT0" : the anchor is then the first match below the unique line containing LIT0)
  //@ rewrite NAME "FROM" => "TO"                         literal replacement, must apply >= 1 time
  //@ rewrite? NAME "FROM" => "TO"                        same, but may apply 0 times (recorded)
  //@ rewrite-re NAME "REGEX" => "TO"                      regular-expression replacement (python re, \\1 back-references), must apply >= 1 time; `rewrite-re?` may apply 0 times
  //@ desugar NAME range-contains                         `(a..=b).contains(&x)` -> `(a <= x && x <= b)`, `(a..b).contains(&x)` -> `(a <= x && x < b)`; may apply 0 times
  //@ drop NAME from "LIT_A" through "LIT_B" as "TEXT"    replaces whole lines [line containing LIT_A ..
                                                          line containing LIT_B] by TEXT (recorded as a drop); `drop?` may not apply
  //@ insert NAME before "LIT" : TEXT                     LIT must occur exactly once
  //@ insert NAME after "LIT" : TEXT
  //@ insert NAME before-brace "LIT" : TEXT               inside the unique line containing LIT, before its last `{` (loop invariants)
  //@ insert NAME at-end : TEXT                           before the last non-blank line of the piece (proof block before a tail expression)
  //@ expect-fail FUNCTION                                vacuity guard: this function must NOT verify
  //@ copy NEW from OLD                                   duplicate a piece as processed so far
  //@ any-of F1 F2 ...                                    alternative contracts over the same text: at least one of the functions must verify, failing members are then ignored
  //@ weak FUNCTION refuted-by W1 W2 ...                  FUNCTION failing to verify counts as a violation only if a witness W (same body, inputs pinned
                                                          to concrete values, `ensures` the negated contract) verifies; otherwise the unit is undecided
Placeholders `/*@NAME*/` in the template are replaced by the processed text.
Header `//! smtopt: K=V` is passed to verus as `--smt-option K=V` (e.g. smt.arith.nl=true for polynomial identities over `real`).
Header: `//! property:`, `//! unit:`, `//! fns:`, `//! tier:`, `//! pair:` (Kani harness that replays a failure).
"""
import os, re, json, shlex, subprocess, time, glob
import stage

VERIF = stage.VERIF


class VUnit:
    kind = "verus"
    def __init__(self):
        self.name = None; self.file = None; self.fns = []; self.tier = "quick"; self.pair = None
        self.role = "contract"
        self.weak = {}
        self.any_of = []
        self.cls = "unbounded"; self.expect_fail = []; self.timeout = 300; self.bound = ""; self.mem = "light"

    @property
    def uid(self):
        return self.name


def _match_brace(text, open_idx):
    """index of the `}` matching text[open_idx] == '{' ; skips strings, chars, comments."""
    assert text[open_idx] == "{"
    i, depth, n = open_idx, 0, len(text)
    while i < n:
        c = text[i]
        if text.startswith("//", i):
            j = text.find("\n", i)
            i = n if j < 0 else j
            continue
        if text.startswith("/*", i):
            j = text.find("*/", i + 2)
            i = n if j < 0 else j + 2
            continue
        if c == '"':
            i += 1
            while i < n and text[i] != '"':
                i += 2 if text[i] == "\\" else 1
            i += 1
            continue
        if c == "'":
            # char literal or lifetime
            m = re.match(r"'(\\.|[^\\'])'", text[i:])
            if m:
                i += m.end()
                continue
        if c == "{":
            depth += 1
        elif c == "}":
            depth -= 1
            if depth == 0:
                return i
        i += 1
    raise stage.LostAnchor("unbalanced braces")


def _unique_line(lines, lit, what, start=0):
    hits = [i for i in range(start, len(lines)) if lit in lines[i]]
    return hits


def build(template_path, repo=None):
    """Returns (generated_source, unit, record) ; raises stage.LostAnchor."""
    repo = repo or stage.REPO
    raw = open(template_path).read()
    hdr = dict(re.findall(r"^//! (\w+): (.+)$", raw, flags=re.M))
    u = VUnit()
    u.name = hdr.get("unit", os.path.basename(template_path)).strip()
    u.file = os.path.relpath(template_path, VERIF)
    # split at commas that are not inside parentheses (the descriptions in brackets may contain commas)
    fns, depth, cur = [], 0, ""
    for ch in hdr.get("fns", ""):
        if ch == "(": depth += 1
        if ch == ")": depth = max(0, depth - 1)
        if ch == "," and depth == 0:
            fns.append(cur); cur = ""
        else:
            cur += ch
    fns.append(cur)
    u.fns = [x.strip() for x in fns if x.strip()]
    u.tier = hdr.get("tier", "quick").strip()
    u.pair = hdr.get("pair", "").strip() or None
    if hdr.get("class"):
        u.cls = hdr["class"].strip()          # `bounded`: the unit checks pinned inputs only - never counted as proved
    u.bound = hdr.get("bound", "").strip()
    u.smt_options = [x.strip() for x in hdr.get("smtopt", "").split(",") if x.strip()]
    pieces, rec = {}, dict(extracted=[], rewrites=[], drops=[], inserts=[])
    for line in raw.splitlines():
        if not line.startswith("//@ "):
            continue
        if " : " in line and line.startswith("//@ insert"):
            head, text = line[4:].split(" : ", 1)
            t = shlex.split(head)
        else:
            t = shlex.split(line[4:])
            text = None
        op = t[0]
        if op == "extract":
            name, fil, lit = t[1], t[3], t[5]
            p = os.path.join(repo, fil)
            if not os.path.exists(p):
                raise stage.LostAnchor("%s: file %s missing" % (u.name, fil))
            src = open(p).read()
            lines = src.splitlines(keepends=True)
            hits = [i for i, l in enumerate(lines) if lit in l]
            if "after" in t[6:]:
                # `... after "LIT0"`: the anchor is the first match below the (unique) line containing LIT0
                lit0 = t[t.index("after", 6) + 1]
                h0 = [i for i, l in enumerate(lines) if lit0 in l]
                if len(h0) != 1:
                    raise stage.LostAnchor("%s: after-anchor %r matches %d times in %s" % (u.name, lit0, len(h0), fil))
                hits = [i for i in hits if i > h0[0]][:1]
            if len(hits) != 1:
                raise stage.LostAnchor("%s: anchor %r matches %d times in %s" % (u.name, lit, len(hits), fil))
            a = hits[0]
            mode = t[6]
            if mode in ("body", "block"):
                off = sum(len(l) for l in lines[:a]) + lines[a].find(lit)
                ob = src.find("{", off + len(lit) - 1 if lit.rstrip().endswith("{") else off)
                if ob < 0:
                    raise stage.LostAnchor("%s: no body after %r" % (u.name, lit))
                cb = _match_brace(src, ob)
                if mode == "block":
                    # an `if .. {..} else {..}` / `else if` chain belongs to one statement
                    while True:
                        m2 = re.match(r"\s*else\b[^{;]*\{", src[cb + 1:])
                        if not m2:
                            break
                        cb = _match_brace(src, cb + 1 + m2.end() - 1)
                body = src[ob + 1:cb] if mode == "body" else src[sum(len(l) for l in lines[:a]):cb + 1] + "\n"
                l0 = src.count("\n", 0, ob) + 1
                l1 = src.count("\n", 0, cb) + 1
            elif mode == "until":
                hits2 = [i for i in range(a + 1, len(lines)) if t[7] in lines[i]]
                if not hits2:
                    raise stage.LostAnchor("%s: until-anchor %r not found after %r" % (u.name, t[7], lit))
                body = "".join(lines[a:hits2[0]])
                l0, l1 = a + 1, hits2[0]
            elif mode == "lines":
                k = int(t[7])
                body = "".join(lines[a:a + k])
                l0, l1 = a + 1, a + k
            else:
                raise ValueError(mode)
            pieces[name] = body
            rec["extracted"].append("%s = %s:%d-%d (%s after anchor %r), %d chars verbatim" % (name, fil, l0, l1, mode, lit, len(body)))
        elif op in ("rewrite", "rewrite?"):
            name, frm, to = t[1], t[2], t[4]
            n = pieces[name].count(frm)
            if n < 1 and op == "rewrite?":
                rec["rewrites"].append("%s: optional rewrite %r -> %r did not apply" % (name, frm, to))
                continue
            if n < 1:
                raise stage.LostAnchor("%s: rewrite source %r not present in %s" % (u.name, frm, name))
            pieces[name] = pieces[name].replace(frm, to)
            rec["rewrites"].append("%s: %r -> %r (%d occurrence(s))" % (name, frm, to, n))
        elif op in ("rewrite-re", "rewrite-re?"):
            # regular-expression form (python `re`, \\1 back-references): for syntactic families such as `<path> as f64`
            name, frm, to = t[1], t[2], t[4]
            new, n = re.subn(frm, to, pieces[name])
            if n < 1 and op == "rewrite-re?":
                rec["rewrites"].append("%s: optional regex rewrite %r -> %r did not apply" % (name, frm, to))
                continue
            if n < 1:
                raise stage.LostAnchor("%s: regex rewrite source %r not present in %s" % (u.name, frm, name))
            pieces[name] = new
            rec["rewrites"].append("%s: regex %r -> %r (%d occurrence(s))" % (name, frm, to, n))
        elif op == "desugar":
            # //@ desugar NAME range-contains : std idiom `(a..=b).contains(&x)` -> `(a <= x && x <= b)`, `(a..b).contains(&x)` -> `(a <= x && x < b)`
            # (the documented meaning of Range*::contains for totally ordered integers; Verus has no specification for it). May apply 0 times.
            name, what = t[1], t[2]
            if what != "range-contains":
                raise ValueError("unknown desugaring %s" % what)
            new, n1 = re.subn(r"\(([^()\s]+)\.\.=([^()\s]+(?:\(\))?)\)\.contains\(&([^()\s]+(?:\(\))?)\)", r"(\1 <= \3 && \3 <= \2)", pieces[name])
            new, n2 = re.subn(r"\(([^()\s]+)\.\.([^()\s=][^()\s]*(?:\(\))?)\)\.contains\(&([^()\s]+(?:\(\))?)\)", r"(\1 <= \3 && \3 < \2)", new)
            pieces[name] = new
            rec["rewrites"].append("%s: desugar range-contains (%d inclusive, %d exclusive occurrence(s))" % (name, n1, n2))
        elif op in ("drop", "drop?"):
            name, la, lb, rep = t[1], t[3], t[5], t[7]
            ls = pieces[name].splitlines(keepends=True)
            ha = [i for i, l in enumerate(ls) if la in l]
            if op == "drop?" and not ha:
                rec["drops"].append("%s: optional drop %r not applicable" % (name, la))
                continue
            if len(ha) != 1:
                raise stage.LostAnchor("%s: drop start %r matches %d times" % (u.name, la, len(ha)))
            hb = [i for i in range(ha[0], len(ls)) if lb in ls[i]]
            if not hb:
                raise stage.LostAnchor("%s: drop end %r not found" % (u.name, lb))
            dropped = "".join(ls[ha[0]:hb[0] + 1])
            ls[ha[0]:hb[0] + 1] = [rep + "\n"]
            pieces[name] = "".join(ls)
            rec["drops"].append("%s: %d line(s) dropped and replaced by %r: %s" % (name, hb[0] - ha[0] + 1, rep, " | ".join(x.strip() for x in dropped.splitlines())))
        elif op == "insert":
            if t[2] == "at-end":
                # before the last non-blank line of the piece (the tail expression of a function body)
                ls = pieces[t[1]].splitlines(keepends=True)
                k = max(i for i, l in enumerate(ls) if l.strip())
                ls.insert(k, text.rstrip() + "\n")
                pieces[t[1]] = "".join(ls)
                rec["inserts"].append("%s: ghost/proof text before the tail expression" % t[1])
                continue
            name, where, lit = t[1], t[2], t[3]
            n = pieces[name].count(lit)
            if n != 1:
                raise stage.LostAnchor("%s: insert anchor %r occurs %d times in %s" % (u.name, lit, n, name))
            ls = pieces[name].splitlines(keepends=True)
            i = [k for k, l in enumerate(ls) if lit in l][0]
            if where == "before-brace":
                k = ls[i].rindex("{")
                ls[i] = ls[i][:k] + text.strip() + " " + ls[i][k:]
            else:
                ls.insert(i if where == "before" else i + 1, text.rstrip() + "\n")
            pieces[name] = "".join(ls)
            rec["inserts"].append("%s: ghost/proof text %s %r" % (name, where, lit))
        elif op == "expect-fail":
            u.expect_fail.append(t[1])
        elif op == "copy":
            # //@ copy NEW from OLD : a second copy of the piece as processed so far (later directives on either name do not affect the other)
            pieces[t[1]] = pieces[t[3]]
        elif op == "any-of":
            # //@ any-of F1 F2 ... : alternative contracts over the same extracted text (e.g. the two orientations of a tie-break that the property
            # leaves open).  At least one must verify; the members that fail are then not counted.  If none verifies, all of them are reported.
            u.any_of.append(t[1:])
        elif op == "weak":
            # //@ weak FUNCTION refuted-by W1 W2 ... : FUNCTION's obligation needs a procedure the solver is incomplete for (nonlinear real arithmetic).
            # If it is not proved, the unit is `violated` only when one of the witness functions verifies - a witness pins the inputs to concrete values
            # and ensures that the contract is FALSE there, which is decidable - and `undecided` otherwise.  Witnesses must fail on a tree where FUNCTION holds.
            u.weak[t[1]] = t[3:]
        else:
            raise ValueError("unknown directive %s in %s" % (op, template_path))
    def rep(m):
        if m.group(1) not in pieces:
            raise ValueError("placeholder %s undefined" % m.group(1))
        return pieces[m.group(1)]
    gen = re.sub(r"/\*@(\w+)\*/", rep, raw)
    return gen, u, rec


def load(pid):
    out = []
    for f in sorted(glob.glob(os.path.join(VERIF, "contracts", pid, "*.verus.rs"))):
        out.append(f)
    return out


def run(template_path, workdir, repo=None):
    """Returns (unit, result dict). result.verdict in discharged|violated|undecided|lost-anchor|vacuous"""
    t0 = time.time()
    try:
        gen, u, rec = build(template_path, repo)
    except stage.LostAnchor as e:
        u = VUnit(); u.file = template_path
        mm = re.search(r"^//! unit: (.+)$", open(template_path).read(), flags=re.M)
        u.name = mm.group(1).strip() if mm else os.path.basename(template_path)
        return u, dict(verdict="lost-anchor", reason=str(e), functions=[], record={}, wall_s=0.0, obligations=0, discharged=0, failed=[])
    os.makedirs(workdir, exist_ok=True)
    crate = re.sub(r"\W", "_", u.name.lower())
    gp = os.path.join(workdir, crate + ".rs")
    open(gp, "w").write(gen)
    cmd = ["verus", os.path.basename(gp), "--output-json", "--time", "--multiple-errors", "20", "--rlimit", "60"]
    for o in getattr(u, "smt_options", []):
        cmd += ["--smt-option", o]
    env = dict(os.environ)
    try:
        p = subprocess.run(cmd, cwd=workdir, stdout=subprocess.PIPE, stderr=subprocess.PIPE, text=True, timeout=u.timeout, env=env)
    except subprocess.TimeoutExpired:
        return u, dict(verdict="undecided", reason="verus timeout", functions=[], record=rec, wall_s=time.time() - t0, obligations=0, discharged=0, failed=[], cmd=" ".join(cmd), generated=gp)
    open(gp + ".stderr", "w").write(p.stderr)
    open(gp + ".json", "w").write(p.stdout)
    res = dict(record=rec, wall_s=time.time() - t0, cmd=" ".join(cmd), generated=gp, failed=[], stderr_tail=p.stderr[-3000:])
    try:
        d = json.loads(p.stdout[p.stdout.index("{"):])
    except Exception:
        # rustc-level error (parse/type error in generated file): the extracted text no longer fits the template
        errs = re.findall(r"^error[^\n]*\n(?:\s+-->[^\n]*)?", p.stderr, flags=re.M)
        res.update(verdict="lost-anchor", reason="generated file rejected before verification: " + " ".join(errs[:3])[:500], functions=[], obligations=0, discharged=0)
        return u, res
    vr = d.get("verification-results", {})
    fb = []
    for mt in d.get("times-ms", {}).get("smt", {}).get("smt-run-module-times", []):
        fb += mt.get("function-breakdown", [])
    funcs = [dict(function=f["function"], mode=f.get("mode:", f.get("mode")), ok=bool(f.get("success")), smt_ms=f.get("time-micros", 0) / 1000.0, rlimit=f.get("rlimit")) for f in fb]
    res["functions"] = funcs
    res["verus_version"] = d.get("verus", {}).get("version")
    res["smt_total_ms"] = d.get("times-ms", {}).get("smt", {}).get("total")
    if vr.get("encountered-vir-error") or (not funcs and not vr.get("success")):
        errs = re.findall(r"^error[^\n]*\n(?:\s+-->[^\n]*)?", p.stderr, flags=re.M)
        res.update(verdict="lost-anchor", reason="Verus rejected the generated file (unsupported construct or type error): " + " ".join(errs[:3])[:500], obligations=0, discharged=0)
        return u, res
    def is_expected_fail(fn):
        return any(fn.endswith("::" + e) or fn == e for e in u.expect_fail)
    def short(fn):
        return fn.split("::")[-1]
    witnesses = set(w for ws in u.weak.values() for w in ws)
    wit = [f for f in funcs if short(f["function"]) in witnesses]
    funcs_nw = [f for f in funcs if short(f["function"]) not in witnesses]
    real = [f for f in funcs_nw if not is_expected_fail(f["function"])]
    guards = [f for f in funcs_nw if is_expected_fail(f["function"])]
    for grp in u.any_of:
        mem = [f for f in real if short(f["function"]) in grp]
        if any(f["ok"] for f in mem):
            skipped = [f["function"] for f in mem if not f["ok"]]
            real = [f for f in real if f["ok"] or short(f["function"]) not in grp]
            if skipped:
                res.setdefault("alternatives_not_taken", []).extend(skipped)
    res["obligations"] = len(real)
    res["discharged"] = sum(1 for f in real if f["ok"])
    if re.search(r"Resource limit \(rlimit\) exceeded|rlimit exceeded|solver.*(crash|unknown)", p.stderr, flags=re.I):
        res.update(verdict="undecided", reason="SMT resource limit exceeded")
        return u, res
    bad = [f for f in real if not f["ok"]]
    if bad and all(short(f["function"]) in u.weak for f in bad):
        hit = [w["function"] for f in bad for w in wit if short(w["function"]) in u.weak[short(f["function"])] and w["ok"]]
        if not hit:
            res["failed"] = []
            res.update(verdict="undecided", reason="%s not proved and not refuted at the pinned inputs (%s): the solver's nonlinear reasoning is incomplete" % (
                ", ".join(f["function"] for f in bad), ", ".join(sorted(witnesses))))
            return u, res
        res["failed"] = [dict(function=f["function"]) for f in bad]
        res["messages"] = ["refuted at the pinned inputs of %s (its requires clause is the failing abstract input)" % h for h in hit]
        res.update(verdict="violated", reason="%s fail(s) and is refuted at the pinned inputs of %s" % (", ".join(f["function"] for f in bad), ", ".join(hit)))
        return u, res
    if bad:
        msgs = re.findall(r"^error: ([^\n]+)\n\s+--> ([^\n]+)\n(?:[^\n]*\n){0,12}?[^\n]*\^+ ?([^\n]*)", p.stderr, flags=re.M)
        res["failed"] = [dict(function=f["function"]) for f in bad]
        res["messages"] = [" / ".join(m) for m in msgs if "expect" not in m[0]][:10]
        res.update(verdict="violated", reason="%d function(s) fail their contract: %s" % (len(bad), ", ".join(f["function"] for f in bad)))
        return u, res
    if len(guards) < len(u.expect_fail) or any(g["ok"] for g in guards):
        res.update(verdict="vacuous", reason="vacuity guard %s verified or missing (contradictory precondition?)" % u.expect_fail)
        return u, res
    if any(w["ok"] for w in wit) or len(wit) < len(witnesses):
        res.update(verdict="vacuous", reason="a refutation witness verified although the contract it refutes was proved, or is missing: %s" % [w["function"] for w in wit if w["ok"]])
        return u, res
    if not u.expect_fail:
        res.update(verdict="vacuous", reason="unit has no expect-fail vacuity guard")
        return u, res
    if not real:
        res.update(verdict="vacuous", reason="zero obligations")
        return u, res
    res.update(verdict="discharged", reason="")
    return u, res
