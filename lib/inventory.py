#!/usr/bin/env python3
"""Print a markdown inventory of all contract units (used for DESIGN.md section 6; regenerate with
   python3 lib/inventory.py > /tmp/inv.md )."""
import os, sys, json, glob, re
HERE = os.path.dirname(os.path.dirname(os.path.abspath(__file__)))
sys.path.insert(0, os.path.join(HERE, "lib"))
import units, verus_run

ready = set(json.load(open(os.path.join(HERE, "contracts", "ready.json"))))
if "--summary" in sys.argv:
    print("| id | level | Verus (unbounded) | Kani complete/modular | bounded | decided (short) | not decided (short) |")
    print("|---|---|---|---|---|---|---|")
    tot = [0, 0, 0]
    for pid in sorted(os.listdir(os.path.join(HERE, "contracts"))):
        pj = os.path.join(HERE, "contracts", pid, "property.json")
        if not os.path.exists(pj) or pid not in ready:
            continue
        p = json.load(open(pj))
        mods, us = units.load_kani(pid)
        vt = verus_run.load(pid)
        nvb = sum(1 for t in vt if re.search(r"^//! class: bounded", open(t).read(), flags=re.M))
        nv = len(vt) - nvb
        nc = sum(1 for u in us if u.cls in ("complete", "modular") and getattr(u, "role", "contract") != "witness")
        nb = sum(1 for u in us if u.cls == "bounded" and getattr(u, "role", "contract") != "witness") + nvb
        tot[0] += nv; tot[1] += nc; tot[2] += nb
        short = lambda t: (t[:330] + " ...") if len(t) > 334 else t
        print("| %s | %s | %d | %d | %d | %s | %s |" % (pid, p.get("level"), nv, nc, nb, short(p.get("decided", "")).replace("|", "\\|"), short(p.get("undecided", "")).replace("|", "\\|")))
    print("\nTotals: %d Verus units, %d Kani complete/modular units, %d bounded units (Kani, plus Verus units over pinned inputs; witness units of known findings not counted)." % tuple(tot))
    sys.exit(0)
for pid in sorted(os.listdir(os.path.join(HERE, "contracts"))):
    pj = os.path.join(HERE, "contracts", pid, "property.json")
    if not os.path.exists(pj):
        continue
    p = json.load(open(pj))
    mods, us = units.load_kani(pid)
    vs = []
    for tp in verus_run.load(pid):
        raw = open(tp).read()
        hdr = dict(re.findall(r"^//! (\w+): (.+)$", raw, flags=re.M))
        vs.append((hdr.get("unit"), hdr.get("fns", ""), hdr.get("tier", "quick"), os.path.relpath(tp, HERE)))
    n = dict(complete=0, modular=0, bounded=0)
    for u in us:
        n[u.cls] = n.get(u.cls, 0) + 1
    q = sum(1 for u in us if u.tier == "quick")
    print("#### %s%s — level `%s`\n" % (pid, "" if pid in ready else " (not yet in the manifest)", p.get("level")))
    print("Units: %d Verus (unbounded), %d Kani complete, %d Kani modular, %d Kani bounded; %d of the %d Kani units run in the quick tier.\n" % (len(vs), n["complete"], n["modular"], n["bounded"], q, len(us)))
    print("*Decided:* %s\n" % p.get("decided", ""))
    print("*Not decided:* %s\n" % p.get("undecided", ""))
    if vs:
        print("| Verus unit | real code under contract (extracted each run) | template |")
        print("|---|---|---|")
        for v in vs:
            print("| %s | %s | `%s` |" % (v[0], v[1], v[3]))
        print()
    if us:
        print("| Kani unit | class | tier | bound | functions |")
        print("|---|---|---|---|---|")
        for u in us:
            print("| %s | %s | %s | %s | %s |" % (u.name, u.cls, u.tier, u.bound or "-", ", ".join(x.split("::")[-1] for x in u.fns)[:90]))
        print()
