#!/usr/bin/env python3
"""Regenerate the generated parts of DESIGN.md: the section-0 inventory table (from lib/inventory.py --summary) and the unit totals."""
import os, re, subprocess, sys
HERE = os.path.dirname(os.path.dirname(os.path.abspath(__file__)))
out = subprocess.run([sys.executable, os.path.join(HERE, "lib", "inventory.py"), "--summary"], stdout=subprocess.PIPE, text=True, cwd=HERE).stdout
p = os.path.join(HERE, "DESIGN.md")
s = open(p).read()
a = s.index("| id | level |")
b = s.index("## 1. Why contracts reach")
s = s[:a] + out.strip() + "\n\n" + s[b:]
m = re.search(r"Totals: (\d+) Verus units, (\d+) Kani complete/modular units, (\d+) bounded", out)
nv, nc, nb = (int(x) for x in m.groups())
s = re.sub(r"\(1[56] properties, about \d+ units: \d+ Verus, \d+ Kani complete/modular, \d+ [^)]*\)", "(16 properties, about %d units: %d Verus, %d Kani complete/modular, %d bounded)" % (nv + nc + nb, nv, nc, nb), s)
open(p, "w").write(s)
print("DESIGN.md refreshed:", nv, nc, nb)
