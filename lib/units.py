"""Parse contract files under /verif/contracts/<ID>/.

*.kani.rs  : a Rust harness module injected (S2) as a child module of the file named in
             its header.  Header lines (`//! key: value`): property, attach, module.
             `// @include common/x.rs` lines are replaced textually by /verif/contracts/common/x.rs.
             Each harness is announced by a line
             // @unit class=complete|modular|bounded tier=quick|thorough mem=light|heavy [bound="..."] [timeout=N] fns=a,b
             followed (after attributes) by `fn <name>()`.
*.kani.rs header `//! plain: yes`: stage this module in a second workspace WITHOUT the S3 attributes (Kani cannot stub a function that carries a contract).
*.attrs    : S3 table: blocks  `@file <path>` / `@anchor <signature prefix>` / attribute lines.
"""
import os, re, glob, shlex
import stage

VERIF = stage.VERIF


class Unit:
    def __init__(self):
        self.name = None; self.cls = "bounded"; self.tier = "quick"; self.mem = "light"
        self.bound = ""; self.timeout = 600; self.fns = []; self.stubs = []; self.ncovers = 0
        self.file = None; self.module = None; self.attach = None; self.crate = None
        self.harness_path = None; self.kind = "kani"; self.contract_for = None; self.pair = None
        self.src = ""; self.should_panic = False; self.role = "contract"

    @property
    def uid(self):
        return "K-%s%s" % (self.name, ("[%s]" % self.bound) if self.bound else "")


def expand_includes(text):
    def rep(m):
        p = os.path.join(VERIF, "contracts", m.group(1))
        return "// ---- begin include %s ----\n%s\n// ---- end include ----\n" % (m.group(1), open(p).read())
    return re.sub(r"^// @include (\S+)\s*$", rep, text, flags=re.M)


def module_path(attach, module):
    """crate-relative Rust path of the injected child module."""
    cd = stage.crate_dir_of(attach)
    rel = os.path.relpath(attach, os.path.join(cd, "src"))
    parts = rel[:-3].split("/")
    if parts[-1] in ("lib", "mod", "main"):
        parts = parts[:-1]
    return "::".join(parts + [module])


def load_kani(pid):
    modules, units = [], []
    for f in sorted(glob.glob(os.path.join(VERIF, "contracts", pid, "*.kani.rs"))):
        raw = open(f).read()
        hdr = dict(re.findall(r"^//! (\w+): (.+)$", raw, flags=re.M))
        attach, module = hdr["attach"].strip(), hdr["module"].strip()
        text = expand_includes(raw)
        modules.append(dict(attach=attach, module=module, text=text, file=f, plain=hdr.get("plain", "").strip() == "yes"))
        crate = None
        lines = raw.splitlines()
        i = 0
        while i < len(lines):
            m = re.match(r"\s*// @unit\s+(.*)$", lines[i])
            if not m:
                i += 1
                continue
            u = Unit()
            for tok in shlex.split(m.group(1)):
                k, _, v = tok.partition("=")
                if k == "class": u.cls = v
                elif k == "tier": u.tier = v
                elif k == "mem": u.mem = v
                elif k == "bound": u.bound = v
                elif k == "timeout": u.timeout = int(v)
                elif k == "fns": u.fns = [x for x in v.split(",") if x]
                elif k == "pair": u.pair = v
                elif k == "name": pass
                elif k == "role": u.role = v
                else: raise ValueError("unknown @unit key %s in %s" % (k, f))
            j = i + 1
            while j < len(lines):
                s = re.match(r"\s*#\[kani::stub\(\s*([^,]+?)\s*,\s*([^)]+?)\s*\)\]", lines[j])
                if s:
                    u.stubs.append((s.group(1), s.group(2)))
                c = re.match(r"\s*#\[kani::proof_for_contract\(\s*([^)]+?)\s*\)\]", lines[j])
                if c:
                    u.contract_for = c.group(1)
                if re.match(r"\s*#\[kani::should_panic\]", lines[j]):
                    u.should_panic = True
                fm = re.match(r"\s*(?:pub\s+)?fn\s+(\w+)\s*\(", lines[j])
                if fm:
                    u.name = fm.group(1)
                    break
                j += 1
            if u.name is None:
                raise ValueError("no fn after @unit in %s line %d" % (f, i + 1))
            # body: up to the next line that is exactly "}"
            k = j
            while k < len(lines) and lines[k].rstrip() != "}":
                k += 1
            u.src = "\n".join(lines[i:k + 1])
            u.ncovers = len(re.findall(r"kani::cover!\(", u.src))
            u.file = os.path.relpath(f, VERIF); u.module = module; u.attach = attach; u.plain = hdr.get("plain", "").strip() == "yes"
            u.crate = stage.crate_name_of(attach)
            u.harness_path = module_path(attach, module) + "::" + u.name
            units.append(u)
            i = k + 1
    names = [u.name for u in units]
    assert len(names) == len(set(names)), "duplicate harness names in %s" % pid
    return modules, units


def load_attrs(pid):
    attrs = []
    for f in sorted(glob.glob(os.path.join(VERIF, "contracts", pid, "*.attrs"))):
        cur = None
        curfile = None
        for line in open(f).read().splitlines():
            if line.startswith("@file "):
                curfile = line[6:].strip()
            elif line.startswith("@anchor "):
                cur = dict(file=curfile, anchor=line[8:].strip(), lines=[], src=os.path.relpath(f, VERIF))
                attrs.append(cur)
            elif line.strip() and not line.startswith("//") and cur is not None:
                cur["lines"].append(line)
    return attrs
