"""Run Kani units on a staged copy and turn CBMC's per-check table into verdicts.

Verdicts (DESIGN.md 3.4): discharged | violated | undecided | lost-anchor | vacuous
A failed proof is *never* reported as a violation unless an assertion-class check fails
(a harness `assert!`, a contract `ensures`, a panic inside the code under test).
"""
import json, os, re, subprocess, time, shutil

KANI_TARGET = os.environ.get("VERIF_KANI_TARGET", "/verif/.cache/kani")

BASE_FLAGS = [
    "-Z", "stubbing", "-Z", "unstable-options", "-Z", "function-contracts",
    "--no-memory-safety-checks", "--no-overflow-checks", "--no-assertion-reach-checks",
]
CBMC_ARGS = ["--cbmc-args", "--unwindset", "memcmp.0:64"]

ENV = dict(os.environ, CARGO_NET_OFFLINE="true", CARGO_TARGET_DIR=KANI_TARGET, CARGO_TERM_COLOR="never")
ENV.pop("RUSTUP_TOOLCHAIN", None)


def _strip_rustc_noise(s):
    keep = []
    skip = False
    for l in s.splitlines():
        if l.startswith("warning:") or l.startswith("warning["):
            skip = True
            continue
        if skip:
            if l.strip() == "" :
                skip = False
            continue
        keep.append(l)
    return "\n".join(keep)


def run_batch(ws, crate, units, jobs, logdir, tag):
    """One cargo-kani invocation for `units` (same crate). Returns {harness_path: result dict}."""
    os.makedirs(logdir, exist_ok=True)
    jpath = os.path.join(logdir, "%s.%s.json" % (crate, tag))
    if os.path.exists(jpath):
        os.remove(jpath)
    tmo = max(u.timeout for u in units)
    cmd = ["cargo", "kani", "-p", crate, "--exact"]
    for u in units:
        cmd += ["--harness", u.harness_path]
    cmd += BASE_FLAGS + ["--output-format", "terse", "-j", str(jobs), "--harness-timeout", "%ds" % tmo,
                         "--export-json", jpath] + CBMC_ARGS
    t0 = time.time()
    try:
        p = subprocess.run(cmd, cwd=ws, env=ENV, stdout=subprocess.PIPE, stderr=subprocess.STDOUT, text=True,
                           timeout=tmo * (1 + (len(units) - 1) // max(jobs, 1)) + 900)
        out, rc = p.stdout, p.returncode
    except subprocess.TimeoutExpired as e:
        out, rc = (e.stdout or b"").decode("utf8", "replace") if isinstance(e.stdout, bytes) else (e.stdout or ""), -9
    wall = time.time() - t0
    open(os.path.join(logdir, "%s.%s.log" % (crate, tag)), "w").write(" ".join(cmd) + "\n" + out)
    res = {}
    compile_error = None
    if not os.path.exists(jpath):
        # build failed (or driver crashed): find out whether the error is in a harness module or elsewhere
        errs = re.findall(r"^error(?:\[E\d+\])?: .*(?:\n\s+--> [^\n]+)?", out, flags=re.M)
        compile_error = "\n".join(errs[:6]) or _strip_rustc_noise(out)[-1500:]
        for u in units:
            res[u.harness_path] = dict(status="build-failed", detail=compile_error, checks=[], duration_s=0.0, stubs=[])
        return res, dict(cmd=" ".join(cmd), wall_s=wall, rc=rc, compile_error=compile_error, tools={})
    d = json.load(open(jpath))
    errs = {e["harness_id"]: e for e in d.get("error_details", [])}
    stats = {e["harness_id"]: e for e in d.get("cbmc", [])}
    stubs = _parse_stub_lines(out)
    for r in d["verification_results"]["results"]:
        hid = r["harness_id"]
        res[hid] = dict(status=r["status"], checks=r.get("checks", []), duration_s=r.get("duration_ms", 0) / 1000.0,
                        error=errs.get(hid, {}), cbmc=stats.get(hid, {}), stubs=stubs.get(hid, []))
    for u in units:
        if u.harness_path not in res:
            res[u.harness_path] = dict(status="not-run", checks=[], duration_s=0.0, stubs=[], detail="harness not found by Kani")
    return res, dict(cmd=" ".join(cmd), wall_s=wall, rc=rc, compile_error=None, tools=d.get("tools", {}))


def _parse_stub_lines(out):
    cur = {}
    stubs = {}
    for l in out.splitlines():
        m = re.match(r"(?:Thread (\d+): )?Checking harness (\S+?)\.\.\.", l)
        if m:
            cur[m.group(1)] = m.group(2)
            stubs.setdefault(m.group(2), [])
            continue
        m = re.match(r"(?:Thread (\d+): )?\s+- Stub: (.+?) -> (.+)$", l)
        if m and m.group(1) in cur:
            stubs[cur[m.group(1)]].append((m.group(2).replace(" ", ""), m.group(3).replace(" ", "")))
    return stubs


UNSUPPORTED_PAT = re.compile(r"not currently supported by Kani|unsupported|undefined function|is not supported|"
                             r"call to foreign|inline assembly|Unsupported", re.I)


def judge(u, r):
    """Return dict(verdict, reason, failed=[checks], counts)."""
    st = r["status"]
    checks = r["checks"]
    if st in ("build-failed",):
        return dict(verdict="lost-anchor", reason="staged crate does not compile: " + (r.get("detail") or "")[:600], failed=[])
    if st == "not-run":
        return dict(verdict="lost-anchor", reason="harness not found", failed=[])
    ex = (r.get("error") or {}).get("exit_status")
    if not checks:
        if ex == "timeout":
            return dict(verdict="undecided", reason="timeout after %ds" % u.timeout, failed=[])
        return dict(verdict="undecided", reason="no check table (CBMC exit: %s, %s)" % (ex, (r.get("error") or {}).get("error_type")), failed=[])
    by = {}
    for c in checks:
        by.setdefault(c.get("category", "?"), []).append(c)
    def stat(c):
        return (c.get("status") or "").upper()
    covers = by.get("cover", [])
    failed = [c for c in checks if stat(c) in ("FAILURE", "FAILED")]
    undet = [c for c in checks if stat(c) in ("UNDETERMINED", "UNKNOWN", "SOLVER_ERROR")]
    unwind_fail = [c for c in failed if c.get("category") == "unwind" or "unwinding assertion" in (c.get("description") or "")]
    unsup_fail = [c for c in failed if UNSUPPORTED_PAT.search((c.get("description") or "") + " " + (c.get("category") or ""))]
    real_fail = [c for c in failed if c not in unwind_fail and c not in unsup_fail]
    counts = dict(total=len(checks), covers=len(covers),
                  success=sum(1 for c in checks if stat(c) == "SUCCESS"),
                  satisfied=sum(1 for c in covers if stat(c) == "SATISFIED"), failed=len(failed))
    if getattr(u, "should_panic", False) and not unsup_fail and not unwind_fail:
        # #[kani::should_panic]: Kani reports Success iff at least one panic is reachable and nothing else is wrong
        bad_cov = [c for c in covers if stat(c) != "SATISFIED"]
        if bad_cov or not covers:
            return dict(verdict="vacuous", reason="cover not satisfied in should_panic unit", failed=[], counts=counts)
        if st.lower() in ("success", "successful") and real_fail:
            counts["success"] += len(real_fail)
            return dict(verdict="discharged", reason="", failed=[], counts=counts)
        return dict(verdict="violated", reason="documented panic did not occur (no reachable panic in a should_panic unit)",
                    failed=[dict(function=u.name, description="expected panic (documented rejection) is not reachable", category="assertion", status="Failure")], counts=counts)
    if unsup_fail:
        return dict(verdict="undecided", reason="unsupported construct reached: " + unsup_fail[0].get("description", "")[:200], failed=[], counts=counts)
    if unwind_fail:
        return dict(verdict="undecided", reason="unwinding assertion failed (bound too small): " + str(unwind_fail[0].get("location")), failed=[], counts=counts)
    if real_fail:
        return dict(verdict="violated", reason="%d assertion-class check(s) fail" % len(real_fail), failed=real_fail, counts=counts)
    if undet:
        return dict(verdict="undecided", reason="undetermined checks: " + undet[0].get("description", "")[:200], failed=[], counts=counts)
    # vacuity guards
    want = set((a.replace(" ", ""), b.replace(" ", "")) for a, b in u.stubs)
    got = set(r.get("stubs", []))
    # Kani prints e.g. "alloc::fmt::format -> fmt_stub" ; compare on last path segments to be robust
    def last(x): return x.split("::")[-1]
    missing = [s for s in want if not any(last(s[0]) == last(g[0]) and last(s[1]) == last(g[1]) for g in got)]
    if missing:
        return dict(verdict="vacuous", reason="expected stub not applied: %s" % (missing,), failed=[], counts=counts)
    if len(covers) < 1:
        return dict(verdict="vacuous", reason="unit has no kani::cover! vacuity guard (no cover check in the table)", failed=[], counts=counts)
    bad_cov = [c for c in covers if stat(c) != "SATISFIED"]
    if bad_cov:
        return dict(verdict="vacuous", reason="cover not satisfied: %s (%s)" % (bad_cov[0].get("description"), stat(bad_cov[0])), failed=[], counts=counts)
    if counts["success"] == 0:
        return dict(verdict="vacuous", reason="zero obligations", failed=[], counts=counts)
    if st.lower() not in ("success", "successful"):
        return dict(verdict="undecided", reason="kani status %s without failing check" % st, failed=[], counts=counts)
    return dict(verdict="discharged", reason="", failed=[], counts=counts)


def run_playback_print(ws, u, logdir):
    """Re-run one failing harness alone with --concrete-playback=print; return (test_text or None, raw_output)."""
    cmd = ["cargo", "kani", "-p", u.crate, "--exact", "--harness", u.harness_path] + BASE_FLAGS + \
          ["-Z", "concrete-playback", "--concrete-playback=print", "--harness-timeout", "%ds" % (u.timeout * 2)] + CBMC_ARGS
    try:
        p = subprocess.run(cmd, cwd=ws, env=ENV, stdout=subprocess.PIPE, stderr=subprocess.STDOUT, text=True, timeout=u.timeout * 2 + 900)
        out = p.stdout
    except subprocess.TimeoutExpired as e:
        out = e.stdout.decode("utf8", "replace") if isinstance(e.stdout, bytes) else (e.stdout or "")
    open(os.path.join(logdir, "%s.playback-print.log" % u.name), "w").write(" ".join(cmd) + "\n" + out)
    best = None
    for blk in re.findall(r"```\s*\n(.*?)\n```", out, flags=re.S):
        m = re.search(r"(#\[test\]\s*\nfn (kani_concrete_playback_\w+)\(\) \{.*?\n\})\s*$", blk, flags=re.S)
        if not m:
            continue
        kind = re.search(r"Check for `(\w+)`", blk)
        is_cover = bool(kind and kind.group(1) == "cover")
        if not is_cover:
            best = (m.group(1), m.group(2))
            break
    if not best:
        return None, None, out
    return best[0], best[1], out


def run_native_playback(pb_ws, u, test_name, logdir):
    cmd = ["cargo", "kani", "playback", "-Z", "concrete-playback", "-p", u.crate, "--", test_name]
    env = dict(ENV, CARGO_TARGET_DIR=KANI_TARGET + "-playback")
    try:
        p = subprocess.run(cmd, cwd=pb_ws, env=env, stdout=subprocess.PIPE, stderr=subprocess.STDOUT, text=True, timeout=1500)
        out, rc = p.stdout, p.returncode
    except subprocess.TimeoutExpired as e:
        out, rc = "timeout", -9
    open(os.path.join(logdir, "%s.playback-native.log" % u.name), "w").write(" ".join(cmd) + "\n" + out)
    ran = re.search(r"running (\d+) test", out)
    panicked = re.search(r"test \S*%s \.\.\. FAILED" % re.escape(test_name), out) is not None
    passed = re.search(r"test \S*%s \.\.\. ok" % re.escape(test_name), out) is not None
    msg = ""
    pm = re.search(r"panicked at ([^\n]+)\n([^\n]*)", out)
    if pm:
        msg = pm.group(1) + " " + pm.group(2)
    return dict(ran=bool(ran and int(ran.group(1)) > 0), failed=panicked, passed=passed, panic=msg, rc=rc, tail=_strip_rustc_noise(out)[-1800:])
