#!/usr/bin/env python3
"""Regenerate MANIFEST.json from contracts/<ID>/property.json and contracts/not_applicable.json."""
import json, os, sys
HERE = os.path.dirname(os.path.dirname(os.path.abspath(__file__)))
BASELINE = json.load(open("/root/.vp/BASELINE.json"))["cmd"] if os.path.exists("/root/.vp/BASELINE.json") else "cargo test --workspace --offline"
READY = set(json.load(open(os.path.join(HERE, "contracts", "ready.json"))))   # properties whose checks the main session has accepted
checks, claimed = [], set()
for pid in sorted(os.listdir(os.path.join(HERE, "contracts"))):
    pj = os.path.join(HERE, "contracts", pid, "property.json")
    if not os.path.exists(pj):
        continue
    p = json.load(open(pj))
    if not p.get("claimed", True) or pid not in READY:
        continue
    claimed.add(pid)
    checks.append(dict(
        property_id=pid,
        quick_cmd="./vx check %s --tier quick" % pid,
        thorough_cmd="./vx check %s --tier thorough" % pid,
        evidence_file="/verif/evidence/%s.json" % pid,
        replay_cmd_template="./vx replay {path}",
        engine="vx",
        level_claimed=dict(category=p["level"], text=p["level_text"], design_ref=p.get("design_ref", "DESIGN.md section 6-" + pid)),
        level_note=p["level_note"],
        technique=p["technique"],
    ))
na = json.load(open(os.path.join(HERE, "contracts", "not_applicable.json")))
props = [json.loads(l)["id"] for l in open(os.path.join(HERE, "properties.jsonl"))]
nal = []
for pid in props:
    if pid in claimed:
        continue
    nal.append(dict(property_id=pid, reason=na.get(pid, "check not built yet in this round (planned in DESIGN.md section 6)")))
m = dict(
    version=1,
    setup_cmd="./vx setup",
    hooks=dict(
        guard="cfg(kani)",
        enable="no hook lives in /repo: `cargo kani` sets cfg(kani) on a staged copy of /repo's working tree made by ./vx on every run (rsync + mechanical edits S1-S3 listed in each evidence file); Verus units re-extract the function text from /repo on every run",
        baseline_off_cmd=BASELINE,
        source_commits=[],
        add_only=True,
    ),
    engines=[dict(name="vx", path="/verif/vx", serves_properties=sorted(claimed),
                  kind_free_text="contract-based deductive verification: Verus 0.2026.09.13 on mechanically extracted function text (unbounded), Kani 0.68/CBMC 6.11 contracts and harnesses on the real crates (complete for loop-free full-domain units, modular via contract witnesses, bounded stand-ins labelled as such)")],
    checks=checks,
    notes="exit 0 = all contract units discharged; exit 1 = VIOLATION (an obligation that is discharged on the pinned tree fails; Kani counterexample replayed natively on the real crate); exit 2 = undecided / lost anchor / vacuous (never an alarm). Known findings: /verif/known_findings.json.",
    not_applicable=nal,
)
json.dump(m, open(os.path.join(HERE, "MANIFEST.json"), "w"), indent=1)
print("claimed:", sorted(claimed), "not_applicable:", [x["property_id"] for x in nal])
